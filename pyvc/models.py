"""Trusted models of builtins / numpy / containers used by the code under contract (assumption A3)."""
import ast, z3
from . import front
from .vals import *
from .vals import arr_at, arr_nan, arr_len
from .engine import Unsupported, PyRaise, Frame, class_table, is_subclass, _not, _and, _or, _cmp

pow_ = z3.Function("pow", RealS, RealS, RealS)
log_ = z3.Function("ln", RealS, RealS)

BUILTINS = {"bisect_right", "bisect_left", "super", "abs", "len", "sum", "min", "max", "isinstance", "float", "int", "list", "dict", "set", "zip", "range",
            "sorted", "defaultdict", "deque", "type", "all", "any", "tuple", "enumerate", "bool", "getattr",
            "OrderedDict", "str", "repr", "print", "iter", "next", "round"}
MODULES = {"np", "numpy", "bisect", "itertools", "datetime", "random", "calendar", "pd", "inspect", "timedelta",
           "tradingenv"}
EXC_NAMES = {"ValueError", "KeyError", "TypeError", "IndexError", "AttributeError", "StopIteration", "Exception",
             "NotImplementedError", "EndOfEpisodeError", "ZeroDivisionError"}


class SuperRef:
    def __init__(self, obj, cls):
        self.obj, self.cls = obj, cls


class KeyIter:
    """iteration over a key-indexed family: dom(k) Bool; get(k) value or None; kind keys|items|values"""

    def __init__(self, dom, get, kind, src=None):
        self.dom, self.get, self.kind, self.src = dom, get, kind, src


def global_name(I, relpath, name):
    try:
        node = front.module_constant(relpath, name)
    except front.BindingError:
        node = None
    if node is not None and name not in class_table():
        I.frames.append(Frame(relpath, "<module>", {}))
        try:
            return I.ev(node)
        finally:
            I.frames.pop()
    if name in class_table():
        return ClassRef(name)
    if name in EXC_NAMES or name in ("Number", "Cash", "ndarray"):
        return ClassRef(name)
    if name in BUILTINS:
        return Builtin(name)
    if name in MODULES:
        return Builtin(name)
    raise Unsupported("unknown name %s in %s" % (name, relpath))


def getattr_value(I, o, attr):
    if hasattr(o, "py_getattr"):
        return o.py_getattr(I, attr)
    if isinstance(o, Builtin):
        full = o.name + "." + attr
        if full in ("np.nan", "numpy.nan"):
            return nanval()
        if full in ("np.ndarray",):
            return ClassRef("ndarray")
        return Builtin(full)
    if isinstance(o, KeyV):
        if attr == "multiplier":
            return Fl(mult(o.t))
        if attr == "margin_requirement":
            return Fl(mr(o.t))
        if attr == "cash_requirement":
            return Fl(cr(o.t))
        if attr in ("static_hashing", "make_events", "verify"):
            return BoundMethod(o, attr)
        raise Unsupported("contract attribute %s" % attr)
    if isinstance(o, Obj) and o.kind == "seq" and attr == "shape":
        return (In(I.heap[o.oid]["len"]),)
    if isinstance(o, Obj) and o.kind in ("map", "seq", "objmap"):
        return BoundMethod(o, attr)
    if isinstance(o, SuperRef):
        return BoundMethod(o, attr)
    if isinstance(o, Fl) and attr in ("total_seconds", "date"):
        return BoundMethod(o, attr)
    if isinstance(o, Fl) and attr in ("days", "seconds", "microseconds"):
        # fields of a timedelta (normalised: 0 <= seconds < 86400, 0 <= microseconds < 1e6; microsecond resolution not modelled)
        days = z3.ToInt(o.v / 86400)
        if attr == "days":
            return In(days)
        if attr == "seconds":
            return In(z3.ToInt(o.v - 86400 * z3.ToReal(days)))
        raise Unsupported("timedelta.microseconds")
    if isinstance(o, ClassRef) and attr == "__name__":
        return o.name
    if isinstance(o, ClassRef) and (o.name, attr) in I.__dict__.get("class_attrs", {}):
        I.trace.append(("global_read", "%s.%s" % (o.name, attr)))
        return I.class_attrs[(o.name, attr)]
    if isinstance(o, ClassRef):
        from .engine import resolve_class_const
        c = resolve_class_const(o.name, attr)
        if c is not None:
            rel, node = c
            I.frames.append(Frame(rel, o.name, {}))
            try:
                return I.ev(node)
            finally:
                I.frames.pop()
        # class-level mutable state (e.g. AbstractContract.now) lives in the globals record
        g = I.opts.get("globals")
        if g is not None and (o.name, attr) in g:
            return g[(o.name, attr)]
    raise Unsupported("attribute %s of %r" % (attr, o))


def getitem_value(I, o, k):
    if hasattr(o, "py_getitem"):
        return o.py_getitem(I, k)
    if isinstance(o, (list, tuple)):
        if isinstance(k, In) and z3.is_int_value(z3.simplify(k.v)):
            return o[z3.simplify(k.v).as_long()]
        raise Unsupported("symbolic index into a concrete list")
    if isinstance(o, Obj) and o.kind == "objmap":
        if not isinstance(k, KeyV):
            raise Unsupported("objmap key %r" % (k,))
        I.add_key(k.t)
        p = I.heap[o.oid]
        if not p.get("total"):
            raise Unsupported("partial objmap")
        od = p["dom"]
        p["dom"] = lambda x, od=od, kk=k.t: z3.simplify(z3.Or(x == kk, od(x)))
        return RowRef(o, k.t, p["rowcls"])
    if isinstance(o, Obj) and o.kind == "seq":
        return seq_getitem(I, o, k)
    raise Unsupported("subscript of %r" % (o,))


def identical(a, b):
    if a is None or b is None:
        return (a is None) and (b is None)
    if isinstance(a, Tm) != isinstance(b, Tm) and isinstance(a, Fl) and isinstance(b, Fl):
        return False          # a datetime is never the float object np.nan
    if isinstance(a, Obj) and isinstance(b, Obj):
        return a.oid == b.oid
    if isinstance(a, bool) and isinstance(b, bool):
        return a == b
    if isinstance(a, Fl) and isinstance(b, Fl):
        # `x is np.nan` style tests: only used as guards in _is_new_date; identity of floats is not modelled
        raise Unsupported("identity of floats")
    if type(a) != type(b):
        return False
    raise Unsupported("identity of %r and %r" % (a, b))


def contains(I, container, item):
    if hasattr(container, "py_contains"):
        return container.py_contains(I, item)
    if isinstance(container, Obj) and container.kind == "objmap":
        if not isinstance(item, KeyV):
            raise Unsupported("membership of %r" % (item,))
        I.add_key(item.t)
        return I.heap[container.oid]["dom"](item.t)
    if isinstance(container, Obj) and container.kind == "map":
        if not isinstance(item, KeyV):
            raise Unsupported("membership of %r" % (item,))
        I.add_key(item.t)
        return I.heap[container.oid]["dom"](item.t)
    if isinstance(container, Obj) and container.kind == "rec":
        from .engine import resolve_method
        # dict subclasses (allocations) keep their items in the `_items` map
        f = I.heap[container.oid]
        if "_items" in f:
            return contains(I, f["_items"], item)
        if resolve_method(container.cls, "__contains__") or resolve_method(container.cls, "contains"):
            name = "__contains__" if resolve_method(container.cls, "__contains__") else "contains"
            return I.call_repo(container.cls, name, container, [item])
        mm = I.registry.get("method:%s.contains" % container.cls)
        if mm is not None:
            return mm(I, [container, item], {})
    if isinstance(container, Obj) and container.kind == "seq" and "at" in I.heap[container.oid]:
        p = I.heap[container.oid]
        if isinstance(item, Fl):
            return z3.Not(forall_index(I, "notin#%d#%d" % (container.oid, I.version), z3.IntVal(0), p["len"],
                                       lambda i: lift_fl(p["at"](i)).v != item.v))
        raise Unsupported("membership of %r in a symbolic sequence" % (item,))
    if isinstance(container, (list, tuple)):
        res = False
        for x in container:
            res = _or(res, I.compare(ast.Eq(), item, x))
        return res
    raise Unsupported("membership in %r" % (container,))


def slice_value(I, o, sl):
    if isinstance(o, Obj) and o.kind == "seq":
        return seq_slice(I, o, sl)
    raise Unsupported("slice of %r" % (o,))


def _is_arr(I, x):
    return isinstance(x, Obj) and x.kind == "seq" and "at" in I.heap[x.oid]


def compare_value(I, op, a, b):
    if _is_arr(I, a) or _is_arr(I, b):
        return seq_elementwise(I, a, b, lambda x, y: tobool(I.compare(op, x, y)), "comparison")
    raise Unsupported("comparison of %r and %r" % (a, b))


def binop_value(I, op, a, b):
    if isinstance(op, ast.Add) and _is_arr(I, a) and _is_arr(I, b) and I.heap[a.oid].get("pytype") == "list" \
            and I.heap[b.oid].get("pytype") == "list":
        # list + list: concatenation (a new list)
        pa, pb = I.heap[a.oid], I.heap[b.oid]
        na, ata, atb = pa["len"], pa["at"], pb["at"]
        return sym_seq(I, lambda i: vite(i < na, ata(i), atb(i - na)), z3.simplify(na + pb["len"]), "list")
    if _is_arr(I, a) or _is_arr(I, b):
        return seq_elementwise(I, a, b, lambda x, y: I.binop(op, x, y), "arithmetic")
    raise Unsupported("binary operation on %r and %r" % (a, b))


def floordiv(a, b):
    """python floor division of ints (z3's ToInt is floor)"""
    return z3.ToInt(z3.ToReal(a) / z3.ToReal(b))


def pymod(a, b):
    return a - b * floordiv(a, b)


def power(I, b, y):
    """x ** y with real exponent: uninterpreted pow + instantiated axioms (A3)."""
    b, y = z3.simplify(b), z3.simplify(y)
    if z3.is_rational_value(y) and y.denominator_as_long() == 1 and 0 <= y.numerator_as_long() <= 4:
        n = y.numerator_as_long()
        r = z3.RealVal(1)
        for _ in range(n):
            r = r * b
        return r
    t = pow_(b, y)
    I.pow_sites.append((b, y))
    I.assume(z3.Implies(y == 0, t == 1))
    I.assume(z3.Implies(b > 0, t > 0))
    I.assume(z3.Implies(z3.And(b >= 1, y >= 0), t >= 1))
    I.assume(z3.Implies(z3.And(b > 0, b <= 1, y >= 0), t <= 1))
    I.assume(z3.Implies(b == 1, t == 1))
    I.assume(z3.Implies(z3.And(b > 1, y > 0), t > 1))
    I.assume(z3.Implies(z3.And(b > 0, b < 1, y > 0), t < 1))
    return t


def trunc(v):
    """int(x) for a real: truncation toward zero"""
    return z3.If(v >= 0, z3.ToInt(v), -z3.ToInt(-v))


# ------------------------------------------------------------------------------ methods of values
def call_method(I, r, name, args, kwargs):
    if hasattr(r, "py_call_method"):
        return r.py_call_method(I, name, args, kwargs)
    if isinstance(r, KeyV):
        if name == "static_hashing":
            k = sh(r.t)
            I.add_key(k)
            return KeyV(k)
        if name == "verify" and len(args) == 1:
            # TRUSTED model of AbstractContract.verify / Rate.verify (3 lines each): a negative price, resp. a rate >= 25%, is refused
            m = lift_fl(args[0])
            bad = z3.If(is_rate(r.t), z3.And(z3.Not(m.nan), m.v >= z3.RealVal("0.25")), z3.And(z3.Not(m.nan), m.v < 0))
            if I.branch(bad):
                raise PyRaise("ValueError", "contract.verify")
            return None
        raise Unsupported("contract method %s" % name)
    if isinstance(r, SuperRef):
        # the only base-class call in the code under contract: dict.__init__(data) of the allocation classes
        if name == "__init__" and is_subclass(r.cls, "dict") or name == "__init__" and "dict" in _bases(r.cls):
            data = args[0] if args else None
            if isinstance(data, Obj) and data.kind == "map":
                p = I.heap[data.oid]
                I.fset(r.obj, "_items", I.new_map(p["get"], p["dom"], None, "dict"))
                return None
        raise Unsupported("super().%s of %s" % (name, r.cls))
    if isinstance(r, Fl):
        if name == "total_seconds":
            return r
        if name == "date":
            return In(z3.ToInt(r.v / 86400))
    if isinstance(r, Obj) and r.kind == "map":
        p = I.heap[r.oid]
        if name == "items":
            return KeyIter(p["dom"], p["get"], "items", r)
        if name == "keys":
            return KeyIter(p["dom"], p["get"], "keys", r)
        if name == "values":
            return KeyIter(p["dom"], p["get"], "values", r)
        if name == "copy":
            return I.new_map(p["get"], p["dom"], p["default"], r.cls)
        if name == "get":
            k = args[0]
            d = args[1] if len(args) > 1 else None
            if not isinstance(k, KeyV):
                raise Unsupported("map.get key")
            I.add_key(k.t)
            if d is None:
                # dict.get(k): the stored value, or None when the key is absent (a branch: None is not a float)
                if I.branch(p["dom"](k.t)):
                    return p["get"](k.t)
                return None
            return vite(p["dom"](k.t), p["get"](k.t), lift_fl(d))
    if isinstance(r, Obj) and r.kind == "seq":
        return seq_method(I, r, name, args, kwargs)
    if isinstance(r, Obj) and r.kind == "objmap" and I.heap[r.oid].get("keyed_list") and name == "append":
        rec = args[0]
        if not (isinstance(rec, Obj) and rec.kind == "rec"):
            raise Unsupported("append of %r to a keyed list" % (rec,))
        f = I.heap[rec.oid]
        k = f["contract"].t
        I.add_key(k)
        for col in list(I.heap[r.oid]["cols"]):
            if col != "contract":
                I.colset(r, col, k, lift_fl(f[col]))
        p = I.heap[r.oid]
        od = p["dom"]
        p["dom"] = lambda x, od=od, k=k: z3.simplify(z3.Or(x == k, od(x)))
        I.wrote(r.oid, "append")
        return None
    raise Unsupported("method %s of %r" % (name, r))


def _bases(cls):
    out, stack = set(), [cls]
    t = class_table()
    while stack:
        c = stack.pop()
        if c in t:
            for b in t[c][1]:
                if b not in out:
                    out.add(b)
                    stack.append(b)
    return out


def construct(I, cls, args, kwargs):
    t = class_table()
    if cls in t:
        from .engine import resolve_method
        con = I.registry.get(cls + ".__new__") or None
        init = resolve_method(cls, "__init__")
        special = I.registry.get("construct:" + cls)
        if special is not None:
            return special(I, args, kwargs)
        o = I.new_rec(cls)
        if init is not None:
            I.call_repo(cls, "__init__", o, args, kwargs)
        return o
    raise Unsupported("constructor %s" % cls)


def call_builtin(I, name, args, kwargs):
    if name == "super":
        o = Opaque("super")
        return SuperRef(I.frame().env.get("self"), I.frame().qual.split(".")[0])
    if name == "abs":
        a = args[0]
        if isinstance(a, In):
            return In(z3.If(a.v >= 0, a.v, -a.v))
        a = lift_fl(a)
        return Fl(absr(a.v), a.nan)
    if name in ("np.isnan", "numpy.isnan"):
        a = args[0]
        if isinstance(a, In):
            return False
        return lift_fl(a).nan
    if name in ("np.sign", "numpy.sign"):
        a = lift_fl(args[0])
        return Fl(z3.If(a.v > 0, z3.RealVal(1), z3.If(a.v < 0, z3.RealVal(-1), z3.RealVal(0))), a.nan)
    if name == "isinstance":
        return isinstance_(I, args[0], args[1])
    if name == "float":
        return lift_fl(args[0])
    if name == "int":
        a = args[0]
        if isinstance(a, In):
            return a
        a = lift_fl(a)
        if not z3.is_false(a.nan):
            if I.branch(a.nan):
                raise PyRaise("ValueError", "int(nan)")
        return In(trunc(a.v))
    if name == "bool":
        return I.truth(args[0])
    if name == "defaultdict":
        if len(args) == 1 and isinstance(args[0], Builtin) and args[0].name == "float":
            return I.new_map(lambda k: Fl(0), lambda k: FALSE, "float", "defaultdict")
        ext = I.registry.get("builtin:defaultdict")
        if ext is not None:
            return ext(I, args, kwargs)
        raise Unsupported("defaultdict(%r)" % (args,))
    if name == "dict":
        if not args:
            return I.new_map(lambda k: Fl(0), lambda k: FALSE, None, "dict")
        a = args[0]
        if isinstance(a, Obj) and a.kind == "map":
            p = I.heap[a.oid]
            return I.new_map(p["get"], p["dom"], None, "dict")
        if isinstance(a, Obj) and a.kind == "rec" and "_items" in I.heap[a.oid]:
            p = I.heap[I.heap[a.oid]["_items"].oid]
            return I.new_map(p["get"], p["dom"], None, "dict")
        raise Unsupported("dict(%r)" % (a,))
    if name == "list":
        if not args:
            return new_seq(I, [])
        a = args[0]
        if isinstance(a, Obj) and a.kind == "map":
            p = I.heap[a.oid]
            return KeyIter(p["dom"], p["get"], "keys", a)
        if isinstance(a, (list, tuple)):
            return list(a)
        if isinstance(a, KeyIter):
            return a
        if isinstance(a, Obj) and a.kind == "rec" and "_items" in I.heap[a.oid]:
            p = I.heap[I.heap[a.oid]["_items"].oid]
            return KeyIter(p["dom"], p["get"], "keys", a)
        raise Unsupported("list(%r)" % (a,))
    if name == "sum":
        a = args[0]
        if isinstance(a, KeyIter) and a.kind == "values":
            from .ghost import gsum_of_family
            return gsum_of_family(I, a)
        if isinstance(a, (list, tuple)):
            tot = In(0)
            for x in a:
                tot = I.binop(ast.Add(), tot, x)
            return tot
        raise Unsupported("sum(%r)" % (a,))
    if name == "len":
        a = args[0]
        if isinstance(a, (list, tuple)):
            return In(len(a))
        if isinstance(a, Obj) and a.kind == "seq":
            return In(I.heap[a.oid]["len"])
        if isinstance(a, Obj) and a.kind == "objmap" and I.heap[a.oid].get("keyed_list"):
            n = I.int("len_keyed_list")           # number of rows of a keyed list: some non-negative integer
            I.assume(n >= 0)
            return In(n)
        raise Unsupported("len(%r)" % (a,))
    if name in ("min", "max") and len(args) == 2:
        a, b = lift_fl(args[0]), lift_fl(args[1])
        c = (a.v <= b.v) if name == "min" else (a.v >= b.v)
        return Fl(z3.If(c, a.v, b.v), z3.simplify(z3.Or(a.nan, b.nan)))
    if name in ("np.log", "numpy.log"):
        a = lift_fl(args[0])
        I.oblige("%s::safety::log_domain" % I.frame().qual, z3.Or(a.nan, a.v > 0), kind="safety")
        return Fl(log_(a.v), a.nan)
    if name in ("np.clip", "numpy.clip"):
        a, lo, hi = lift_fl(args[0]), lift_fl(args[1]), lift_fl(args[2])
        return Fl(z3.If(a.v < lo.v, lo.v, z3.If(a.v > hi.v, hi.v, a.v)), a.nan)
    if name in ("np.all", "numpy.all"):
        a = args[0]
        if isinstance(a, bool) or is_symbool(a):
            return a
        if _is_arr(I, a):
            p = I.heap[a.oid]
            return forall_index(I, "all#%d" % a.oid, z3.IntVal(0), p["len"], lambda i: tobool(p["at"](i)))
        raise Unsupported("np.all(%r)" % (a,))
    if name in ("np.any", "numpy.any"):
        a = args[0]
        if isinstance(a, bool) or is_symbool(a):
            return a
        if _is_arr(I, a):
            p = I.heap[a.oid]
            return z3.Not(forall_index(I, "none#%d" % a.oid, z3.IntVal(0), p["len"], lambda i: z3.Not(tobool(p["at"](i)))))
        raise Unsupported("np.any(%r)" % (a,))
    if name in ("np.asarray", "numpy.asarray", "np.array", "numpy.array"):
        a = args[0]
        if _is_arr(I, a):
            return a
        raise Unsupported("np.asarray(%r)" % (a,))
    if name == "type":
        a = args[0]
        if isinstance(a, Obj) and a.kind == "rec":
            return ClassRef(a.cls)
    if name == "getattr" and len(args) == 2 and hasattr(args[1], "py_attr_of"):
        return args[1].py_attr_of(I, args[0])
    if name == "zip":
        return ("zip",) + tuple(args)
    if name == "deque":
        return deque_new(I, args, kwargs)
    if name == "range":
        return ("range",) + tuple(args)
    if name == "datetime.now":
        raise Unsupported("ambient nondeterminism: datetime.now()")
    if name == "datetime":
        vals = [z3.simplify(a.v) for a in args if isinstance(a, In)]
        if len(vals) == len(args) and all(z3.is_int_value(v) for v in vals) and len(vals) >= 3:
            import datetime as _dt
            t = _dt.datetime(*[v.as_long() for v in vals])
            return Tm((t - _dt.datetime(2000, 1, 1)).total_seconds())
        raise Unsupported("datetime(...) with symbolic fields")
    if name == "set" and not args and not kwargs:
        o = I.new_map(lambda x: Fl(z3.RealVal(1)), lambda x: FALSE, None, "dict")        # the empty set: a map with an empty domain
        I.heap[o.oid]["pyset"] = True
        return o
    if name in ("timedelta", "datetime.timedelta"):
        # a duration is its number of seconds on the same real line as datetimes (A: microsecond resolution is not modelled)
        units = {"days": 86400, "seconds": 1, "microseconds": z3.RealVal("1/1000000"), "milliseconds": z3.RealVal("1/1000"), "minutes": 60,
                 "hours": 3600, "weeks": 604800}
        order = ["days", "seconds", "microseconds", "milliseconds", "minutes", "hours", "weeks"]
        tot, nan = z3.RealVal(0), FALSE
        for nm, a in list(zip(order, args)) + list(kwargs.items()):
            if nm not in units:
                raise Unsupported("timedelta(%s=...)" % nm)
            f = lift_fl(a)
            tot, nan = tot + f.v * units[nm], z3.Or(nan, f.nan)
        return Fl(z3.simplify(tot), z3.simplify(nan))
    if name in ("bisect_left", "bisect_right"):
        name = "bisect." + name
    if name in ("bisect.bisect_left", "bisect.bisect_right"):
        seq, x = args
        p = I.heap[seq.oid]
        if "at" not in p or not p.get("sorted"):
            raise Unsupported("bisect on a sequence not known to be sorted")
        n = p["len"]
        i = I.idx("bisect")
        xv = lift_fl(x).v
        I.assume(z3.And(i >= 0, i <= n))
        below = (lambda a, b: a < b) if name.endswith("left") else (lambda a, b: a <= b)
        above = (lambda a, b: a <= b) if name.endswith("left") else (lambda a, b: a < b)
        I.add_idx(i - 1)
        I.assume(z3.Implies(i > 0, below(lift_fl(p["at"](i - 1)).v, xv)))
        I.assume(z3.Implies(i < n, above(xv, lift_fl(p["at"](i)).v)))
        return In(i)
    ext = I.registry.get("builtin:" + name)
    if ext is not None:
        return ext(I, args, kwargs)
    raise Unsupported("builtin %s" % name)


def isinstance_(I, x, c):
    if isinstance(c, tuple):
        r = False
        for cc in c:
            r = _or(r, isinstance_(I, x, cc))
        return r
    cname = c.name if isinstance(c, (ClassRef, Builtin)) else None
    if cname is None:
        raise Unsupported("isinstance(_, %r)" % (c,))
    if isinstance(x, KeyV):
        if cname == "Cash":
            return is_cash(x.t)
        if cname == "AbstractContract":
            return True
        return False
    if isinstance(x, Obj) and x.kind == "rec":
        return is_subclass(x.cls, cname)
    if isinstance(x, Tm) and cname in ("datetime", "datetime.datetime"):
        return True
    if isinstance(x, (Fl, In)):
        if cname == "Number":
            return True
        if cname in ("float",):
            return isinstance(x, Fl)
        if cname in ("int",):
            return isinstance(x, In)
        return False
    if isinstance(x, Obj) and x.kind == "seq":
        return cname in ("ndarray", "np.ndarray", "list") and I.heap[x.oid].get("pytype", "list") in (
            cname, "np." + cname, cname.replace("np.", ""))
    if x is None or isinstance(x, (str, bool)):
        return cname == type(x).__name__
    if isinstance(x, Obj) and x.kind == "map":
        return cname in ("dict", x.cls)
    raise Unsupported("isinstance(%r, %s)" % (x, cname))


# ------------------------------------------------------------------------------ symbolic-length sequences
def sym_seq(I, at, length, pytype="list", maxlen=None):
    """a sequence of symbolic length: at(i: Int term) -> value, len: Int term"""
    return I.new_obj("seq", pytype, {"at": at, "len": length, "pytype": pytype, "maxlen": maxlen})


def act_array(I, t):
    """the 1-D float array denoted by an opaque action term (cached per term)"""
    cache = I.__dict__.setdefault("_act_arrays", {})
    key = t.get_id()
    if key not in cache:
        o = sym_seq(I, lambda i, t=t: Fl(arr_at(t, i), arr_nan(t, i)), arr_len(t), "ndarray")
        I.heap[o.oid]["act"] = t
        I.assume(arr_len(t) >= 0)
        cache[key] = (o, t)
    return cache[key][0]


class MatV:
    """a 2-D table of floats (sequence of equally long rows), e.g. DiscretePortfolio._allocations"""

    def __init__(self, nrows, ncols, at):
        self.nrows, self.ncols, self.at = nrows, ncols, at

    def py_getitem(self, I, k):
        if not isinstance(k, In):
            if isinstance(k, Fl):
                raise PyRaise("TypeError", "list indices must be integers")
            raise Unsupported("table index %r" % (k,))
        idx = z3.If(k.v < 0, k.v + self.nrows, k.v)
        if not I.branch(z3.And(idx >= 0, idx < self.nrows)):
            raise PyRaise("IndexError", "table index")
        return sym_seq(I, lambda j, idx=idx: self.at(idx, j), self.ncols, "list")


def forall_index(I, name, lo, hi, pred):
    """a Bool equivalent to  forall i in [lo,hi). pred(i)  (definitional; queries stay quantifier free)"""
    cache = I.__dict__.setdefault("_foralls", {})
    if name in cache:
        return cache[name]
    b = z3.Bool("ALL[%s]" % name)
    w = I.idx("cex[%s]" % name)
    cache[name] = b
    I.assume(z3.Implies(z3.Not(b), z3.And(lo <= w, w < hi, z3.Not(pred(w)))))
    I.assume_pwi(lambda i: z3.Implies(z3.And(b, lo <= i, i < hi), pred(i)))
    return b


def seq_elementwise(I, a, b, fn, what):
    """numpy broadcasting of a binary operation over 1-D arrays / scalars"""
    pa = I.heap[a.oid] if isinstance(a, Obj) else None
    pb = I.heap[b.oid] if isinstance(b, Obj) else None
    if pa is not None and "at" not in pa or pb is not None and "at" not in pb:
        raise Unsupported("elementwise %s on a concrete list" % what)
    if pa is not None and pb is not None:
        if not I.branch(pa["len"] == pb["len"]):
            raise PyRaise("ValueError", "operands could not be broadcast together")
        n = pa["len"]
        at = lambda i: fn(pa["at"](i), pb["at"](i))
    elif pa is not None:
        n = pa["len"]
        at = lambda i: fn(pa["at"](i), b)
    else:
        n = pb["len"]
        at = lambda i: fn(a, pb["at"](i))
    return sym_seq(I, at, n, "ndarray")


# ------------------------------------------------------------------------------ sequences (lists, deques, arrays)
def new_seq(I, items, pytype="list"):
    """a sequence with a concrete list of (symbolic) items"""
    return I.new_obj("seq", pytype, {"items": list(items), "len": z3.IntVal(len(items)), "pytype": pytype,
                                     "maxlen": None})


def seq_getitem(I, o, k):
    p = I.heap[o.oid]
    if "items" in p and isinstance(k, In) and z3.is_int_value(z3.simplify(k.v)):
        i = z3.simplify(k.v).as_long()
        try:
            return p["items"][i]
        except IndexError:
            raise PyRaise("IndexError", "seq index")
    if "at" in p and isinstance(k, In):
        n = p["len"]
        idx = z3.simplify(z3.If(k.v < 0, k.v + n, k.v))
        I.add_idx(idx)
        if not I.branch(z3.And(idx >= 0, idx < n)):
            raise PyRaise("IndexError", "seq index")
        return p["at"](idx)
    raise Unsupported("sequence index %r" % (k,))


def seq_setitem(I, o, k, v):
    raise Unsupported("sequence store")


def seq_slice(I, o, sl):
    raise Unsupported("sequence slice")


def seq_method(I, o, name, args, kwargs):
    p = I.heap[o.oid]
    if "at" in p:
        at, n = p["at"], p["len"]
        if name == "appendleft":
            v = args[0]
            p["at"] = lambda i, at=at, v=v: vite(i == 0, v, at(i - 1))
            p["len"] = n + 1
            if p.get("maxlen") is not None:
                if I.branch(n + 1 > p["maxlen"]):
                    p["len"] = n                       # deque(maxlen): the rightmost element is discarded
                    I.trace.append(("deque_evict", "right"))
            I.wrote(o.oid, "items")
            return None
        if name == "append":
            v = args[0]
            p["at"] = lambda i, at=at, v=v, n=n: vite(i == n, v, at(i))
            p["len"] = n + 1
            if p.get("maxlen") is not None:
                if I.branch(n + 1 > p["maxlen"]):
                    p["at"] = lambda i, f=p["at"]: f(i + 1)
                    p["len"] = n
                    I.trace.append(("deque_evict", "left"))
            I.wrote(o.oid, "items")
            return None
        if name == "pop" and not args:
            if not I.branch(n > 0):
                raise PyRaise("IndexError", "pop from an empty deque")
            v = at(n - 1)
            p["len"] = n - 1
            I.wrote(o.oid, "items")
            return v
        if name == "clear" and not args:
            p["len"] = z3.IntVal(0)                   # in place: every alias of the list sees it emptied
            I.wrote(o.oid, "items")
            return None
        if name in ("min", "max") and not args and not kwargs and p.get("pytype") == "ndarray":
            # numpy reduction over a 1-D float array (TRUSTED model, A3): the extremum is an element and bounds every element; a NaN
            # anywhere makes the result NaN; an empty array raises
            if not I.branch(n > 0):
                raise PyRaise("ValueError", "zero-size array to reduction operation")
            tag = "%s#%d#%d" % (name, o.oid, I.version)
            m = z3.Real(I.fresh_name(name))
            j = I.idx("arg" + name)
            clean = forall_index(I, "nonan:" + tag, z3.IntVal(0), n, lambda i: z3.Not(lift_fl(at(i)).nan))
            I.assume(z3.And(0 <= j, j < n, z3.Implies(clean, m == lift_fl(at(j)).v)))
            if name == "min":
                I.assume_pwi(lambda i: z3.Implies(z3.And(clean, 0 <= i, i < n), m <= lift_fl(at(i)).v))
            else:
                I.assume_pwi(lambda i: z3.Implies(z3.And(clean, 0 <= i, i < n), m >= lift_fl(at(i)).v))
            return Fl(m, z3.Not(clean))
        ext = I.registry.get("seqmethod:" + name)
        if ext is not None:
            return ext(I, o, args, kwargs)
        raise Unsupported("sequence method %s on a symbolic sequence" % name)
    if "items" in p:
        if name == "append":
            p["items"] = p["items"] + [args[0]]
            if p.get("maxlen") is not None and len(p["items"]) > p["maxlen"]:
                p["items"] = p["items"][1:]
                I.trace.append(("deque_evict", "left"))
            p["len"] = z3.IntVal(len(p["items"]))
            I.wrote(o.oid, "items")
            return None
        if name == "appendleft":
            p["items"] = [args[0]] + p["items"]
            if p.get("maxlen") is not None and len(p["items"]) > p["maxlen"]:
                p["items"] = p["items"][:-1]
                I.trace.append(("deque_evict", "right"))
            p["len"] = z3.IntVal(len(p["items"]))
            I.wrote(o.oid, "items")
            return None
        if name == "pop":
            if not p["items"]:
                raise PyRaise("IndexError", "pop from empty")
            if args:
                raise Unsupported("pop(i)")
            v = p["items"][-1]
            p["items"] = p["items"][:-1]
            p["len"] = z3.IntVal(len(p["items"]))
            I.wrote(o.oid, "items")
            return v
        if name == "popleft":
            if not p["items"]:
                raise PyRaise("IndexError", "pop from empty")
            v = p["items"][0]
            p["items"] = p["items"][1:]
            p["len"] = z3.IntVal(len(p["items"]))
            I.wrote(o.oid, "items")
            return v
    raise Unsupported("sequence method %s" % name)


def deque_new(I, args, kwargs):
    items = args[0] if args else []
    maxlen = kwargs.get("maxlen", args[1] if len(args) > 1 else None)
    if isinstance(items, Obj) and items.kind == "seq" and "items" in I.heap[items.oid]:
        items = I.heap[items.oid]["items"]
    if isinstance(items, Obj) and items.kind == "seq" and "at" in I.heap[items.oid]:
        # deque(symbolic list, maxlen=m): the last min(len, m) items, in order
        src = I.heap[items.oid]
        n, at = src["len"], src["at"]
        if maxlen is None:
            return sym_seq(I, at, n, "deque", maxlen=None)
        m = maxlen.v if isinstance(maxlen, In) else None
        if m is None:
            raise Unsupported("deque maxlen %r" % (maxlen,))
        if I.branch(n <= m):
            return sym_seq(I, at, n, "deque", maxlen=m)
        return sym_seq(I, lambda i, at=at, n=n, m=m: at(i + n - m), m, "deque", maxlen=m)
    if not isinstance(items, (list, tuple)):
        raise Unsupported("deque(%r)" % (items,))
    ml = None
    if maxlen is not None:
        m = z3.simplify(maxlen.v) if isinstance(maxlen, In) else None
        if m is None or not z3.is_int_value(m):
            raise Unsupported("symbolic deque maxlen")
        ml = m.as_long()
    o = new_seq(I, list(items)[-ml:] if ml is not None else items, "deque")
    I.heap[o.oid]["maxlen"] = ml
    return o
