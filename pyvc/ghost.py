"""Ghost sums over key-indexed families (DESIGN §4.4 "Sums over maps").

The solver never sees a summation operator.  A sum is a real constant tied to (family, heap version)
plus a python function giving the pointwise term.  Three lemmas are applied at the meta level, each
producing only quantifier-free pointwise queries; they are stated and proved in lean/SumLemmas.lean:

  sum_congr_on     (forall k. f k = g k)                      ->  SUM f = SUM g
  sum_update_fin   (forall k not in K. f' k = f k)            ->  SUM f' - SUM f = SUM_{k in K} (f' k - f k)
  (families have finite support; a term is 0 outside the domain, so domains need not be compared)
"""
import z3
from .vals import *


class Family:
    """A key-indexed real family with finite support.  term(I, heap, k) -> z3 Real"""
    name = "family"

    def ident(self):
        return self.name

    def term(self, I, heap, k):
        raise NotImplementedError

    def deps(self, I, heap):
        """the immutable payload objects the family reads from `heap`"""
        raise NotImplementedError


class MapFamily(Family):
    """values of a float map (0 outside its domain)"""

    def __init__(self, get, dom, name):
        self.get, self.dom, self.name = get, dom, name

    def term(self, I, heap, k):
        v = self.get(k)
        return z3.If(self.dom(k), v.v, z3.RealVal(0))

    def deps(self, I, heap):
        return [self.get, self.dom]


def heap_tag(I, heap):
    if heap is None or heap is I.heap:
        return "v%d" % I.version
    return "v%d" % heap["__ver__"]


def gsum(I, fam, heap=None):
    """the real constant standing for SUM_k fam.term(heap, k).
    Two heaps in which every location the family reads holds the same (immutable) closure/value objects
    denote the same sum, so the constant is keyed by the identity of those objects."""
    h = I.heap if heap is None else heap
    deps = fam.deps(I, h)
    sig = tuple(id(d) for d in deps)
    table = I.__dict__.setdefault("_gsum_sigs", {})
    key = (fam.ident(), sig)
    if key not in table:
        n = len([1 for k in table if k[0] == fam.ident()])
        c = z3.Real("SUM[%s@s%d]" % (fam.ident(), n))
        snap = h if h is not I.heap else I.snapshot_tagged()
        table[key] = (c, deps)            # deps kept alive: ids stay unique
        I.gsums[(fam.ident(), "s%d" % n)] = (c, fam, snap)
    return table[key][0]


def gsum_entry(I, const):
    for key, (c, fam, snap) in I.gsums.items():
        if c.eq(const):
            return fam, snap
    return None


def gsum_of_family(I, it):
    """model of python's sum(d.values()): a ghost sum constant with the map's pointwise term"""
    fam = MapFamily(it.get, it.dom, "sum(values)#%d" % len(I.gsums))
    c = gsum(I, fam)
    nanf = FALSE
    return Fl(c, nanf)
