"""./vcheck replay <file>: re-run a recorded counterexample against the real code of the current tree."""
import json, sys


def replay_file(path):
    with open(path) as f:
        rec = json.load(f)
    from shell import replayers
    kind = rec.get("kind")
    print("replay of %s (property %s, kind %s)" % (rec.get("obligation"), rec.get("property"), kind))
    if kind in replayers.TABLE:
        out = replayers.TABLE[kind]({"model": rec.get("model"), "path": rec.get("path")})
        print(json.dumps(out, indent=1, default=str))
        print("REPRODUCED" if out.get("reproduced") else "not reproduced on this tree")
        return 1 if out.get("reproduced") else 0
    if kind == "shell" or rec.get("input") is not None:
        from shell import rerun
        return rerun.rerun(rec)
    print("no replay constructor: the file carries the failed obligation and the solver output only")
    print(json.dumps(rec.get("solver"), indent=1))
    return 0
