"""Source binding: the verified text is the code that runs.

Every run parses the *current working tree* of the repository (VERIF_REPO, default /repo) with
`ast`, finds functions by qualified name and hashes their AST.  Nothing is transcribed by hand.
What is dropped (stated, exhaustive): docstrings, annotations, decorators other than
@property/@staticmethod, and the *text* of exception messages (handled in the engine).
"""
import ast, hashlib, os

REPO = os.environ.get("VERIF_REPO", "/repo")


class BindingError(Exception):
    """A contract no longer binds to the source (function missing / signature changed)."""


_cache = {}


def module_ast(relpath):
    path = os.path.join(REPO, relpath)
    key = (path,)
    if key not in _cache:
        with open(path, "rb") as f:
            src = f.read().decode("utf-8").replace("\r\n", "\n")
        _cache[key] = ast.parse(src, filename=path)
    return _cache[key]


def find(relpath, qual):
    """qual = 'Class.method' or 'function'. Returns the ast.FunctionDef."""
    tree = module_ast(relpath)
    parts = qual.split(".")
    body = tree.body
    node = None
    for i, p in enumerate(parts):
        node = None
        for n in body:
            if isinstance(n, (ast.ClassDef, ast.FunctionDef)) and n.name == p:
                node = n
                break
        if node is None:
            raise BindingError("%s:%s not found in the working tree" % (relpath, qual))
        body = node.body
    if not isinstance(node, ast.FunctionDef):
        raise BindingError("%s:%s is not a function" % (relpath, qual))
    return node


def find_class(relpath, name):
    for n in module_ast(relpath).body:
        if isinstance(n, ast.ClassDef) and n.name == name:
            return n
    raise BindingError("%s: class %s not found" % (relpath, name))


def module_constant(relpath, name):
    """AST of a module-level `name = <expr>` assignment."""
    for n in module_ast(relpath).body:
        if isinstance(n, ast.Assign) and len(n.targets) == 1 and isinstance(n.targets[0], ast.Name) \
                and n.targets[0].id == name:
            return n.value
    raise BindingError("%s: constant %s not found" % (relpath, name))


def class_constant(relpath, cls, name):
    for n in find_class(relpath, cls).body:
        if isinstance(n, ast.Assign) and len(n.targets) == 1 and isinstance(n.targets[0], ast.Name) \
                and n.targets[0].id == name:
            return n.value
        if isinstance(n, ast.AnnAssign) and isinstance(n.target, ast.Name) and n.target.id == name:
            return n.value
    raise BindingError("%s: %s.%s not found" % (relpath, cls, name))


def strip(fn):
    """Copy of the function with docstring and annotations dropped (what the hash covers)."""
    fn = ast.parse(ast.unparse(fn)).body[0]
    if fn.body and isinstance(fn.body[0], ast.Expr) and isinstance(fn.body[0].value, ast.Constant) \
            and isinstance(fn.body[0].value.value, str):
        fn.body = fn.body[1:] or [ast.Pass()]
    fn.returns = None
    for a in fn.args.args + fn.args.kwonlyargs:
        a.annotation = None
    return fn


def ast_hash(fn):
    return hashlib.sha256(ast.dump(strip(fn)).encode()).hexdigest()[:16]


def is_property(fn):
    return any(isinstance(d, ast.Name) and d.id == "property" for d in fn.decorator_list)


def params(fn):
    return [a.arg for a in fn.args.args]
