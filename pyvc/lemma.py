"""Property-level lemmas over contracts: small SMT queries that are not tied to one function body."""
import time, z3
from . import solve


def prove(name, hyps, goal, timeout_ms=20000, detail=""):
    """unsat(hyps & not goal) -> discharged. Returns an obligation dict (runner format)."""
    t0 = time.time()
    s = z3.Solver()
    s.set("timeout", timeout_ms)
    for h in hyps:
        s.add(h)
    s.add(z3.Not(goal))
    r = s.check()
    verdict = "sat" if r == z3.sat else ("unsat" if r == z3.unsat else "unknown")
    backend = "z3-5.1(py,fresh)"
    model = None
    if verdict == "sat":
        m = s.model()
        model = {str(d): str(m[d]) for d in m.decls()}
    if verdict == "unknown":
        smt2 = s.to_smt2()
        v, _ = solve.cvc5_cli(smt2, 30)
        backend = "cvc5-1.0.3(cli)"
        verdict = v
        if verdict == "unknown":
            v, _ = solve.z3old_cli(smt2, 60)
            backend = "z3-4.8.12(cli)"
            verdict = v
    if solve.THOROUGH and verdict in ("sat", "unsat"):
        smt2 = s.to_smt2()
        v1, _ = solve.cvc5_cli(smt2, 30)
        v2, _ = solve.z3old_cli(smt2, 30)
        solve.CROSS.append((name, {"z3-5.1": verdict, "cvc5-1.0.3": v1, "z3-4.8.12": v2}))
    return {"name": name, "verdict": verdict, "backend": backend, "ms": int((time.time() - t0) * 1000), "kind": "lemma",
            "detail": detail, "model": model, "path": [], "known_ids": []}


def check(name, ok, detail=""):
    """a structural (non-SMT) obligation decided by inspecting the AST / contracts"""
    return {"name": name, "verdict": "unsat" if ok else "sat", "backend": "engine(structural)", "ms": 0, "kind": "lemma",
            "detail": detail, "model": None, "path": [], "known_ids": []}


def binds(name, ok, detail=""):
    """a *binding* check: the lemma above was proved about expressions read from the AST; if the source no longer has that
    shape the lemma no longer speaks about the code: undecided (exit 2), never a violation (DESIGN 4.1)"""
    return {"name": name, "verdict": "unsat" if ok else "unknown", "backend": "engine(source binding)", "ms": 0, "kind": "lemma",
            "detail": detail + ("" if ok else " -- the source no longer has the shape this lemma was stated for"), "model": None,
            "path": [], "known_ids": []}
