"""Two-tier discharge: first with non-linear arithmetic abstracted to uninterpreted functions.

Every product of two non-constant terms, every division by a non-constant term and every non-constant power
is replaced by an application of an uninterpreted function (amul/adiv/apow) plus a few sign/zero/unit axioms.
The abstraction only *forgets* facts about * and /, so `unsat` under abstraction implies `unsat` of the precise
query (sound for discharging and for pruning infeasible branches).  `sat`/`unknown` under abstraction decides
nothing: the precise query is then asked.  Most obligations are structural (equal terms, frames, domains) and are
decided in the abstraction in milliseconds; the arithmetic identities go to the precise NRA query.
"""
import z3

RealS, IntS = z3.RealSort(), z3.IntSort()
amulR = z3.Function("amul", RealS, RealS, RealS)
adivR = z3.Function("adiv", RealS, RealS, RealS)
amulI = z3.Function("amulI", IntS, IntS, IntS)
atoint = z3.Function("atoint", RealS, IntS)


def _is_num(t):
    return z3.is_rational_value(t) or z3.is_int_value(t)


class Abstractor:
    def __init__(self, solver):
        self.s = solver
        self.cache = {}
        self.sites = {}

    def mul2(self, a, b):
        # argument order is kept as written (an order by ast id would differ between two instances of the same
        # pointwise term at different keys and break congruence); commutativity is added per pair of sites
        key = ("m", a.get_id(), b.get_id())
        t = self.sites.get(key)
        if t is None:
            f = amulI if a.sort() == IntS else amulR
            t = f(a, b)
            self.sites[key] = (t, a, b)
            s = self.s
            rev = self.sites.get(("m", b.get_id(), a.get_id()))
            if rev is not None:
                s.add(t == rev[0])
            s.add((t == 0) == z3.Or(a == 0, b == 0))
            s.add(z3.Implies(z3.Or(z3.And(a > 0, b > 0), z3.And(a < 0, b < 0)), t > 0))
            s.add(z3.Implies(z3.Or(z3.And(a > 0, b < 0), z3.And(a < 0, b > 0)), t < 0))
            s.add(z3.Implies(a == 1, t == b))
            s.add(z3.Implies(b == 1, t == a))
            s.add(z3.Implies(a == -1, t == -b))
            s.add(z3.Implies(b == -1, t == -a))
            return t
        return t[0]

    def div2(self, a, b):
        key = ("d", a.get_id(), b.get_id())
        t = self.sites.get(key)
        if t is None:
            t = adivR(a, b)
            self.sites[key] = (t, a, b)
            s = self.s
            s.add(z3.Implies(b != 0, (t == 0) == (a == 0)))
            s.add(z3.Implies(z3.Or(z3.And(a > 0, b > 0), z3.And(a < 0, b < 0)), t > 0))
            s.add(z3.Implies(z3.Or(z3.And(a > 0, b < 0), z3.And(a < 0, b > 0)), t < 0))
            s.add(z3.Implies(b == 1, t == a))
            return t
        return t[0]

    def ab(self, t):
        i = t.get_id()
        r = self.cache.get(i)
        if r is not None:
            return r[0]
        r = self._ab(t)
        self.cache[i] = (r, t)
        return r

    def _ab(self, t):
        if not z3.is_app(t):
            return t
        n = t.num_args()
        if n == 0:
            return t
        kids = t.children()
        ch = [self.ab(x) for x in kids]
        k = t.decl().kind()
        if k not in (z3.Z3_OP_MUL, z3.Z3_OP_DIV, z3.Z3_OP_TO_INT):
            for a, b in zip(ch, kids):
                if a is not b and a.get_id() != b.get_id():
                    break
            else:
                return t
        if k == z3.Z3_OP_MUL:
            nums = [c for c in ch if _is_num(c)]
            rest = [c for c in ch if not _is_num(c)]
            if len(rest) <= 1:
                return _rebuild(t, ch)
            acc = rest[0]
            for c in rest[1:]:
                acc = self.mul2(acc, c)
            for c in nums:
                acc = c * acc
            return acc
        if k == z3.Z3_OP_DIV:
            if _is_num(ch[1]):
                return _rebuild(t, ch)
            return self.div2(ch[0], ch[1])
        if k == z3.Z3_OP_TO_INT:
            # floor as an uninterpreted function with its two defining linear bounds
            key = ("i", ch[0].get_id())
            r = self.sites.get(key)
            if r is None:
                r = atoint(ch[0])
                self.sites[key] = (r, ch[0], None)
                self.s.add(z3.ToReal(r) <= ch[0], ch[0] < z3.ToReal(r) + 1)
                return r
            return r[0]
        return _rebuild(t, ch)


def _rebuild(t, ch):
    same = True
    for j, c in enumerate(ch):
        if not c.eq(t.arg(j)):
            same = False
            break
    if same:
        return t
    k = t.decl().kind()
    if k == z3.Z3_OP_AND:
        return z3.And(*ch)
    if k == z3.Z3_OP_OR:
        return z3.Or(*ch)
    if k == z3.Z3_OP_ADD:
        return z3.Sum(*ch) if len(ch) > 2 else ch[0] + ch[1]
    if k == z3.Z3_OP_MUL:
        acc = ch[0]
        for c in ch[1:]:
            acc = acc * c
        return acc
    if k == z3.Z3_OP_DISTINCT:
        return z3.Distinct(*ch)
    return t.decl()(*ch)
