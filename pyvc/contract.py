"""Contracts: requires / modifies / ensures / raises on the real functions, and loop invariants.

The same clause functions are used in both directions:
  * verify(contract): the function body (read from the working tree) is executed symbolically under
    `requires`; every `ensures`/`raises` clause becomes a named obligation on every path;
  * contract.apply(...): at a call site the callee's `requires` become obligations of the caller, its
    `modifies` are havocked and its `ensures` assumed; each `raises` clause forks an exceptional path.
"""
import time, z3
from . import front, ghost
from .vals import *
from .engine import Interp, explore, PyRaise, PathEnd, Unsupported, Obligation, resolve_method, Frame
from .solve import cover


class Cl:
    """plain clause: a formula"""

    def __init__(self, name, fml):
        self.name, self.fml = name, fml


class PW:
    """pointwise clause: forall k. fn(k)"""

    def __init__(self, name, fn):
        self.name, self.fn = name, fn


class PWI:
    """pointwise clause over integer indices: forall i:Int. fn(i)"""

    def __init__(self, name, fn):
        self.name, self.fn = name, fn


class SumDelta:
    """SUM fam_new(new) - SUM fam(old) == delta, touched keys `keys` (z3 key terms; may alias).
    fam_new defaults to fam (the same family evaluated on two heaps)."""

    def __init__(self, name, fam, keys, delta, old=None, new=None, fam_new=None):
        self.name, self.fam, self.keys, self.delta, self.old, self.new = name, fam, keys, delta, old, new
        self.fam_new = fam_new or fam


class SumZero:
    """SUM fam(heap) == 0 because every term is 0"""

    def __init__(self, name, fam, heap=None):
        self.name, self.fam, self.heap_ = name, fam, heap


class SumCongr:
    """SUM famA(heapA) == SUM famB(heapB), by pointwise equality of the terms"""

    def __init__(self, name, famA, heapA, famB, heapB):
        self.name, self.famA, self.heapA, self.famB, self.heapB = name, famA, heapA, famB, heapB


class Ctx:
    """what clause functions see: arguments by name, old heap snapshot, result, the interpreter"""

    def __init__(self, I, args):
        self.I = I
        self.args = args
        self.old = None
        self.new = None
        self.result = None
        self.exc = None
        self.ghost = {}
        self.callsite = False

    def __getattr__(self, n):
        a = self.__dict__.get("args", {})
        if n in a:
            return a[n]
        raise AttributeError(n)

    # heap accessors: old=True reads the pre-state snapshot
    def heap(self, old=False):
        return self.old if old else (self.new if self.new is not None else self.I.heap)

    def f(self, obj, name, old=False):
        return self.heap(old)[obj.oid][name]

    def m(self, mp, k, old=False):
        return self.heap(old)[mp.oid]["get"](k)

    def dom(self, mp, k, old=False):
        return self.heap(old)[mp.oid]["dom"](k)

    def col(self, om, field, k, old=False):
        return self.heap(old)[om.oid]["cols"][field](k)


class _Guarded:
    """iterates a clause list; a clause list that cannot even be built on this path (a field the contract says is a float
    holds something else, a record is missing) is a false postcondition, not a crash of the checker"""

    def __init__(self, I, prefix, fn):
        self.I, self.prefix, self.fn = I, prefix, fn

    def __iter__(self):
        try:
            for cl in self.fn():
                yield cl
        except (TypeError, KeyError, AttributeError, IndexError) as ex:
            yield Cl("post_state_has_the_shape_the_contract_states", FALSE)
            self.I.log.append("clause construction failed under %s: %s: %s" % (self.prefix, type(ex).__name__, ex))


def prove_clause(I, prefix, cl, kind="vc"):
    """emit the obligations of one clause under the current path; afterwards it is assumed"""
    if getattr(cl, "input_assumption", False):
        # a clause about the *inputs* the function relays (e.g. the quotes carried by the events it delivers stay within the
        # property's quantifier): not an effect of the code, never proved, listed as an assumption
        I.log.append("assumed input clause %s%s" % (prefix, cl.name))
        was = I.feasible()
        assume_clause(I, cl)
        if was and not I.feasible():
            # the state the code has built cannot satisfy the assumption about its inputs: nothing after this point would be checked
            ob = Obligation(prefix + cl.name + "::input_assumption_satisfiable", "sat", "z3 feasibility", 0, path=list(I.dec),
                            detail="the input assumption contradicts the state reached by the code (vacuity guard)", model={})
            I.obls.append(ob)
            return [ob]
        return []
    known = getattr(cl, "known", None)
    if isinstance(cl, Cl):
        return [I.oblige(prefix + cl.name, cl.fml, kind=kind, known=known)]
    if isinstance(cl, PW):
        k = I.skolem()
        return [I.oblige(prefix + cl.name, cl.fn(k), kind=kind, detail="skolem key %s" % k,
                         known=[(fid, r(k)) for fid, r in known] if known else None)]
    if isinstance(cl, PWI):
        i = I.skolem_idx()
        return [I.oblige(prefix + cl.name, cl.fn(i), kind=kind, detail="skolem index %s" % i)]
    if isinstance(cl, SumDelta):
        out = []
        old = cl.old
        new = cl.new if cl.new is not None else I.heap
        keys = list(cl.keys)
        k = I.skolem()
        hyp = z3.And(*[k != x for x in keys]) if keys else TRUE
        fr = cl.fam_new.term(I, new, k) == cl.fam.term(I, old, k)
        # k differs from every touched key: rewrite the equalities the map stores introduced
        subs = []
        for x in keys:
            subs += [(k == x, FALSE), (x == k, FALSE)]
        if subs:
            fr = z3.simplify(z3.substitute(fr, *subs))
        out.append(I.oblige(prefix + cl.name + "::frame", z3.Implies(hyp, fr), kind=kind,
                            detail="lemma sum_update_fin: pointwise frame outside touched keys"))
        tot = z3.RealVal(0)
        for i, x in enumerate(keys):
            d = cl.fam_new.term(I, new, x) - cl.fam.term(I, old, x)
            if i:      # touched keys may alias: each distinct key is counted once
                d = z3.If(z3.Or(*[x == y for y in keys[:i]]), z3.RealVal(0), d)
            tot = tot + d
        out.append(I.oblige(prefix + cl.name + "::delta", tot == cl.delta, kind=kind, known=known,
                            detail="lemma sum_update_fin: finite delta over touched keys"))
        concl = ghost.gsum(I, cl.fam_new, new) == ghost.gsum(I, cl.fam, old) + cl.delta
        if all(o.verdict == "unsat" for o in out):
            I.assume(concl)
        elif all(o.verdict in ("unsat", "known") for o in out):
            I.assume(z3.Or(z3.Or(*[r for _, r in known]), concl))
        return out
    if isinstance(cl, SumZero):
        k = I.skolem()
        h = cl.heap_ if cl.heap_ is not None else I.heap
        ob = I.oblige(prefix + cl.name, cl.fam.term(I, h, k) == 0, kind=kind, detail="every term of the family is 0")
        if ob.verdict == "unsat":
            I.assume(ghost.gsum(I, cl.fam, h) == 0)
        return [ob]
    if isinstance(cl, SumCongr):
        k = I.skolem()
        hA = cl.heapA if cl.heapA is not None else I.heap
        hB = cl.heapB if cl.heapB is not None else I.heap
        ob = I.oblige(prefix + cl.name, cl.famA.term(I, hA, k) == cl.famB.term(I, hB, k), kind=kind,
                      detail="lemma sum_congr_on: pointwise equality of terms")
        if ob.verdict == "unsat":
            I.assume(ghost.gsum(I, cl.famA, hA) == ghost.gsum(I, cl.famB, hB))
        return [ob]
    raise TypeError(cl)


def control_clause(I, prefix, cl):
    """a perturbed postcondition: checked without being assumed; expected verdict is `sat` on some path"""
    from .solve import discharge
    if isinstance(cl, Cl):
        goal = cl.fml
    elif isinstance(cl, PW):
        goal = cl.fn(I.skolem())
    elif isinstance(cl, PWI):
        goal = cl.fn(I.skolem_idx())
    elif isinstance(cl, SumDelta):
        new = cl.new if cl.new is not None else I.heap
        tot = z3.RealVal(0)
        for i, x in enumerate(cl.keys):
            d = cl.fam_new.term(I, new, x) - cl.fam.term(I, cl.old, x)
            if i:
                d = z3.If(z3.Or(*[x == y for y in cl.keys[:i]]), z3.RealVal(0), d)
            tot = tot + d
        goal = tot == cl.delta
    else:
        raise TypeError(cl)
    ob = discharge(I, prefix + cl.name, goal, kind="control")
    I.obls.append(ob)
    return ob


def assume_clause(I, cl):
    if isinstance(cl, Cl):
        I.assume(cl.fml)
    elif isinstance(cl, PW):
        I.assume_pw(cl.fn)
    elif isinstance(cl, PWI):
        I.assume_pwi(cl.fn)
    elif isinstance(cl, SumDelta):
        new = cl.new if cl.new is not None else I.heap
        I.assume(ghost.gsum(I, cl.fam_new, new) == ghost.gsum(I, cl.fam, cl.old) + cl.delta)
    elif isinstance(cl, SumZero):
        I.assume(ghost.gsum(I, cl.fam, cl.heap_ if cl.heap_ is not None else I.heap) == 0)
    elif isinstance(cl, SumCongr):
        hA = cl.heapA if cl.heapA is not None else I.heap
        hB = cl.heapB if cl.heapB is not None else I.heap
        I.assume(ghost.gsum(I, cl.famA, hA) == ghost.gsum(I, cl.famB, hB))
    else:
        raise TypeError(cl)


class Contract:
    relpath = None
    qual = None
    props = ()            # property ids this contract serves
    shards = None         # optional list of decision prefixes (top-level case split) verified in parallel
    inline_callees = ()

    # -- to be provided by concrete contracts
    def pre_state(self, I):
        """build symbolic arguments for the verification harness: dict name -> value (incl. self)"""
        raise NotImplementedError

    def requires(self, c):
        return []

    def modifies(self, c):
        """list of ('obj', Obj) | ('field', Obj, name)"""
        return []

    def havoc(self, c):
        """havoc the modified locations at a call site (default: driven by modifies())"""
        for loc in self.modifies(c):
            havoc_loc(c.I, loc)

    def result(self, c):
        return None

    def havoc_final(self, c):
        """effects that happen after the last state-dependent (late) exceptional exit"""
        pass

    def ensures(self, c):
        return []

    def hints(self, c):
        """ghost lemma applications evaluated before the ensures clauses (proved, then assumed)"""
        return []

    def raises(self, c):
        """dict exc type -> {'when': formula over the pre-state, 'post': [clauses], 'modifies': [...]}"""
        return {}

    def witness(self, c):
        """name -> z3 term: values reported from counter-models (used by replay)"""
        return {}

    def perturbed(self, c):
        """vacuity guard: deliberately wrong postconditions; each must be REFUTED on some path"""
        return []

    def splits(self, c):
        """proof hint: conditions to case-split on before executing the body (all cases are explored)"""
        return []

    # -- machinery
    def cls_name(self):
        return self.qual.split(".")[0]

    def fn_name(self):
        return self.qual.split(".")[-1]

    def bind(self, I, fn, allargs, kwargs):
        names = front.params(fn)
        args = {}
        for n, v in zip(names, allargs):
            args[n] = v
        for n, v in kwargs.items():
            if n not in names:
                raise front.BindingError("%s has no parameter %s" % (self.qual, n))
            args[n] = v
        defaults = fn.args.defaults
        for n, d in zip(names[len(names) - len(defaults):], defaults):
            if n not in args:
                I.frames.append(Frame(self.relpath, self.qual, {}))
                try:
                    args[n] = I.ev(d)
                finally:
                    I.frames.pop()
        return args

    def apply(self, I, fn, allargs, kwargs):
        args = self.bind(I, fn, allargs, kwargs)
        c = Ctx(I, args)
        c.callsite = True
        caller = I.frame().qual if I.frames else "<top>"
        for cl in self.requires(c):
            prove_clause(I, "%s::call[%s]::requires::" % (caller, self.qual), cl, kind="callsite")
        c.old = I.snapshot()
        I.trace.append(("call", self.qual))
        I.log.append("applied %s" % self.qual)
        if getattr(self, "assumed", False):
            I.log.append("assumed %s" % self.qual)
        elif getattr(self, "abstraction", None):
            I.log.append("assumed %s [verified against its concrete contract; %s]" % (self.qual, self.abstraction))
        I.in_callsite = getattr(I, "in_callsite", 0) + 1
        I._pending_exists = []
        try:
            specs = raise_specs(self.raises(c))
        finally:
            I.in_callsite -= 1
        pending = list(I._pending_exists)
        for typ, spec in specs:
            if spec.get("late"):
                continue
            when = spec["when"]
            if I.branch(when):
                from contracts._spec import activate_exists
                for e in pending:
                    activate_exists(I, e)     # the raising side: the witnesses of its existential conditions exist
                for loc in spec.get("modifies", []):
                    havoc_loc(I, loc)
                for cl in spec.get("post", []):
                    assume_clause(I, cl)
                I.trace.append(("raise", self.qual, typ))
                raise PyRaise(typ, self.qual)
        self.havoc(c)
        c.result = self.result(c)
        c.new = I.snapshot()
        for typ, spec in specs:
            # exits that depend on the state the call itself produces (checked after the effects)
            if spec.get("late") and I.branch(spec["when"]()):
                for cl in spec.get("post", []):
                    assume_clause(I, cl)
                I.trace.append(("raise", self.qual, typ))
                raise PyRaise(typ, self.qual)
        self.havoc_final(c)
        c.new = I.snapshot()
        for cl in self.hints(c):
            assume_clause(I, cl)
        for cl in self.ensures(c):
            assume_clause(I, cl)
        return c.result


def raise_specs(r):
    """normalise `raises`: {type: spec | [spec, ...]} -> [(type, spec), ...]"""
    out = []
    for typ, sp in r.items():
        for x in (sp if isinstance(sp, list) else [sp]):
            out.append((typ, x))
    return out


def _when(spec):
    w = spec["when"]
    w = w() if callable(w) else w
    return z3.BoolVal(w) if isinstance(w, bool) else w


def havoc_loc(I, loc):
    if loc[0] == "obj":
        o = loc[1]
        p = I.heap[o.oid]
        if o.kind == "map":
            f = I.func("hv_m%d" % o.oid, K, RealS)
            n = I.func("hv_m%d?nan" % o.oid, K, BoolS) if loc[2:] and loc[2] == "nan" else None
            d = I.func("hv_m%d?dom" % o.oid, K, BoolS)
            p["get"] = (lambda k, f=f, n=n: Fl(f(k), n(k))) if n is not None else (lambda k, f=f: Fl(f(k)))
            p["dom"] = lambda k, d=d: d(k)
            if p["default"] == "float":
                I.assume_pw(lambda k, f=f, d=d: z3.Implies(z3.Not(d(k)), f(k) == 0))
            I.wrote(o.oid, "*")
        elif o.kind == "rec":
            for name, cur in list(p.items()):
                if isinstance(cur, (Fl, In)) or is_symbool(cur) or isinstance(cur, bool):
                    p[name] = fresh_like(I, cur, "hv_%s" % name)
            I.wrote(o.oid, "*")
        else:
            raise Unsupported("havoc of %r" % (o,))
    elif loc[0] == "field":
        o, name = loc[1], loc[2]
        cur = I.heap[o.oid][name]
        I.fset(o, name, fresh_like(I, cur, "hv_%s" % name))
    elif loc[0] == "entry":
        m, k = loc[1], loc[2]
        cur = I.heap[m.oid]["get"](k)
        I.mset(m, k, fresh_like(I, cur, "hv_e"))
    elif loc[0] == "global":
        pass
    elif loc[0] == "col":
        m, field = loc[1], loc[2]
        p = I.heap[m.oid]
        sample = p["cols"][field](z3.Const("__k", K))
        if isinstance(sample, Fl):
            f = I.func("hv_%s" % field, K, RealS)
            n = I.func("hv_%s?nan" % field, K, BoolS)
            p["cols"][field] = lambda k, f=f, n=n: Fl(f(k), n(k))
        elif is_symbool(sample) or isinstance(sample, bool):
            f = I.func("hv_%s" % field, K, BoolS)
            p["cols"][field] = lambda k, f=f: f(k)
        else:
            raise Unsupported("havoc of column %s" % field)
        I.wrote(m.oid, field)
    else:
        raise Unsupported("havoc %r" % (loc,))


def fresh_like(I, cur, base):
    if isinstance(cur, Fl):
        return I.fl(base, may_nan=not z3.is_false(cur.nan))
    if isinstance(cur, In):
        return In(I.int(base))
    if isinstance(cur, bool) or is_symbool(cur):
        return I.bool(base)
    if cur is None:
        return I.fl(base)
    raise Unsupported("fresh value like %r" % (cur,))


class Result:
    """result of verifying one function under contract"""

    def __init__(self, contract):
        self.contract = contract
        self.obls = []
        self.paths = 0
        self.feasible_paths = 0
        self.outcomes = {}
        self.undecided = []
        self.ast_hash = None
        self.wall = 0.0
        self.covers = []
        self.inlined = set()
        self.assumed = set()
        self.notes = set()
        self.callees = set()


def verify(con, registry, opts=None, initial=None):
    """Generate and discharge every obligation of one function contract from the current source."""
    t0 = time.time()
    res = Result(con)
    r = resolve_method(con.cls_name(), con.fn_name()) if "." in con.qual else None
    if r is None:
        raise front.BindingError("%s not found" % con.qual)
    relpath, qual, fn = r
    if relpath != con.relpath:
        raise front.BindingError("%s expected in %s, found in %s" % (con.qual, con.relpath, relpath))
    res.ast_hash = front.ast_hash(fn)
    cover_seen = {"normal": False}

    def run(I):
        args = con.pre_state(I)
        missing = [p for p in front.params(fn) if p not in args and
                   p not in front.params(fn)[len(front.params(fn)) - len(fn.args.defaults):]]
        if missing:
            raise front.BindingError("%s: parameters %s are not bound by the contract" % (con.qual, missing))
        c = Ctx(I, args)
        I.witness.update(con.witness(c))
        for cl in con.requires(c):
            assume_clause(I, cl)
        if not I.feasible():
            raise PathEnd("requires-unsat")
        for cond in con.splits(c):
            I.branch(cond)          # proof hint: case split (every case is explored)
        c.old = I.snapshot()
        exc_specs = con.raises(c)          # evaluated on the pre-state
        I.target = (relpath, qual)
        I.write_logs = [set()]
        names = front.params(fn)
        I.first_new_oid = I.next_oid
        try:
            recv = args.get("self")
            kw = {n: args[n] for n in names if n != "self" and n in args}
            c.result = I.call_repo(con.cls_name(), con.fn_name(), recv, [], kw)
            outcome = "return"
        except PyRaise as ex:
            outcome = "raise:" + ex.typ
            c.exc = ex
        pfx = con.qual + "::"
        c.new = I.snapshot()
        for cl in _Guarded(I, pfx + "lemma::", lambda: con.hints(c)):
            prove_clause(I, pfx + "lemma::", cl)
        specs = raise_specs(exc_specs)
        if outcome == "return":
            for i, (typ, spec) in enumerate(specs):
                if spec.get("catch_all"):
                    continue
                tag = typ if len([1 for t, _ in specs if t == typ]) == 1 else "%s#%d" % (typ, i)
                I.oblige(pfx + "raises::%s::complete" % tag, z3.Not(_when(spec)),
                         detail="no normally-returning path satisfies the raise condition")
            for cl in _Guarded(I, pfx + "ensures::", lambda: con.ensures(c)):
                prove_clause(I, pfx + "ensures::", cl)
            allowed = modset(con.modifies(c))
            check_frame(I, pfx, allowed)
            for cl in con.perturbed(c):
                control_clause(I, pfx + "control::", cl)
        else:
            typ = c.exc.typ
            mine = [(i, sp) for i, (t, sp) in enumerate(specs) if t == typ]
            if not mine:
                I.oblige(pfx + "raises::unexpected[%s]" % typ, FALSE,
                         detail="exception type not listed in `raises` must be unreachable (origin %s)" % c.exc.origin)
            else:
                known = None
                for _, sp in mine:
                    for fid, pats in (sp.get("known_origins") or {}).items():
                        if any(pt in (c.exc.origin or "") for pt in pats):
                            known = (known or []) + [(fid, TRUE)]
                goal = z3.Or(*[_when(sp) for _, sp in mine])
                if known and I.sat_possible(z3.Not(goal)):
                    # an exceptional exit through a call site recorded as a known finding: reported as such (the bounded
                    # shell reproduces it on the real code); it is discharged instead if the exit is unreachable
                    ob = Obligation(pfx + "raises::%s::sound" % typ, "known", "engine(call-site match)+z3 feasibility", 0,
                                    path=list(I.dec), detail="origin %s; recorded finding(s) %s" % (c.exc.origin, ",".join(f for f, _ in known)))
                    ob.known_ids = [f for f, _ in known]
                    I.obls.append(ob)
                    # what must hold even on the recorded escape (e.g. the done flag is already latched)
                    for _, sp in mine:
                        for cl in _Guarded(I, pfx + "raises::%s::post_known::" % typ, lambda sp=sp: sp.get("post_known", [])):
                            prove_clause(I, pfx + "raises::%s::post_known::" % typ, cl)
                else:
                    ob = I.oblige(pfx + "raises::%s::sound" % typ, goal, detail="origin %s" % c.exc.origin, known=known)
                for i, sp in (mine if ob.verdict == "unsat" else []):
                    tag = typ if len(mine) == 1 else "%s#%d" % (typ, i)
                    if len(mine) == 1 or I.branch(_when(sp)):
                        for cl in _Guarded(I, pfx + "raises::%s::post::" % tag, lambda sp=sp: sp.get("post", [])):
                            prove_clause(I, pfx + "raises::%s::post::" % tag, cl)
                        check_frame(I, pfx + "raises::%s::" % tag, modset(sp.get("modifies", [])))
                        break
        return outcome

    results = explore(run, registry, opts, initial=initial)
    for I, out in results:
        res.paths += 1
        if isinstance(out, tuple):
            res.outcomes[out[1]] = res.outcomes.get(out[1], 0) + 1
        else:
            res.feasible_paths += 1
            res.outcomes[out] = res.outcomes.get(out, 0) + 1
        res.obls.extend(I.obls)
        for l in I.log:
            if l.startswith("inlined "):
                res.inlined.add(l[8:])
            elif l.startswith("applied "):
                res.callees.add(l[8:])
            elif l.startswith("assumed input clause "):
                res.notes.add(l)
            elif l.startswith("assumed "):
                res.assumed.add(l[8:])
            elif l.startswith("unmodelled attribute"):
                res.notes.add(l)
    res.wall = time.time() - t0
    return res


def modset(locs):
    s = set()
    for loc in locs:
        if loc[0] == "obj":
            s.add((loc[1].oid, "*"))
        elif loc[0] in ("field", "col"):
            s.add((loc[1].oid, loc[2]))
        elif loc[0] == "entry":
            s.add((loc[1].oid, "[]"))
        elif loc[0] == "global":
            s.add((-1, loc[1]))
    return s


def check_frame(I, pfx, allowed):
    """writes observed on this path must be within `modifies` (objects created by the call are exempt)"""
    log = I.write_logs[0]
    bad = []
    for oid, what in log:
        if oid >= 0 and I.heap.get(oid, {}).get("borrowed"):
            # an object handed out by a callee that keeps using it (e.g. the transmitter's own partition lists): not the caller's to write
            bad.append((oid, "%s of a borrowed %s" % (what, I.heap[oid].get("borrowed"))))
            continue
        if oid >= I.first_new_oid and oid >= 0:
            continue
        if (oid, "*") in allowed or (oid, what) in allowed:
            continue
        bad.append((oid, what))
    ob = Obligation(pfx + "frame::writes_within_modifies", "unsat" if not bad else "sat", "engine(write log)", 0,
                    detail="" if not bad else "writes outside modifies: %r" % (bad,), path=list(I.dec),
                    model={} if bad else None)
    I.obls.append(ob)


# ------------------------------------------------------------------------------------------------------------------
class LoopBodyContract:
    """Contract on the body of one `for` loop of a function, verified for an arbitrary iteration in isolation (no
    induction needed when the property is per-iteration).  What the code before the loop establishes is stated in
    `requires` and justified there (trusted models of sorted/set/comprehension filters, A3)."""
    relpath = None
    qual = None           # function containing the loop
    ordinal = 0           # which `for` (source order)
    props = ()
    shards = None

    @property
    def name(self):
        return "body:%s#%d" % (self.qual, self.ordinal)

    def pre_env(self, I):
        """local variables at the start of an arbitrary iteration (loop target included)"""
        raise NotImplementedError

    def requires(self, c):
        return []

    def ensures(self, c):
        return []

    def perturbed(self, c):
        return []

    def witness(self, c):
        return {}


def verify_body(con, registry, opts=None, initial=None):
    import ast as _ast
    t0 = time.time()
    res = Result(con)
    cls, fname = con.qual.split(".")
    r = resolve_method(cls, fname)
    if r is None:
        raise front.BindingError("%s not found" % con.qual)
    relpath, qual, fn = r
    fors = sorted([n for n in _ast.walk(fn) if isinstance(n, _ast.For)], key=lambda n: (n.lineno, n.col_offset))
    if con.ordinal >= len(fors):
        raise front.BindingError("%s has no loop #%d" % (con.qual, con.ordinal))
    loop = fors[con.ordinal]
    res.ast_hash = front.ast_hash(fn)
    from .engine import _Continue, _Break

    def run(I):
        env = con.pre_env(I)
        c = Ctx(I, env)
        I.witness.update(con.witness(c))
        for cl in con.requires(c):
            assume_clause(I, cl)
        if not I.feasible():
            raise PathEnd("requires-unsat")
        c.old = I.snapshot()
        I.write_logs = [set()]
        I.first_new_oid = I.next_oid
        I.frames.append(Frame(relpath, qual, env))
        outcome = "iteration"
        try:
            try:
                I.block(loop.body)
            except _Continue:
                outcome = "continue"
            except _Break:
                outcome = "break"
        except PyRaise as ex:
            outcome = "raise:" + ex.typ
            c.exc = ex
        finally:
            I.frames.pop()
        c.new = I.snapshot()
        c.result = outcome
        pfx = "%s::loop%d::body::" % (con.qual, con.ordinal)
        for cl in con.ensures(c):
            prove_clause(I, pfx, cl)
        for cl in con.perturbed(c):
            control_clause(I, pfx + "control::", cl)
        return outcome

    results = explore(run, registry, opts, initial=initial)
    for I, out in results:
        res.paths += 1
        if isinstance(out, tuple):
            res.outcomes[out[1]] = res.outcomes.get(out[1], 0) + 1
        else:
            res.feasible_paths += 1
            res.outcomes[out] = res.outcomes.get(out, 0) + 1
        res.obls.extend(I.obls)
        for l in I.log:
            if l.startswith("inlined "):
                res.inlined.add(l[8:])
    res.wall = time.time() - t0
    return res
