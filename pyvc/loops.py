"""Loops and comprehensions.

* iterable is a concrete python list (e.g. `[contract]`)  -> unrolled (complete, not bounded);
* iterable is a key-indexed family (dict keys/items, list(dict)) -> verified with a loop contract:
  ghost set `done`;  I(empty);  I(done) & k in dom\\done |- body |- I(done+{k});  I(dom) |- rest.
* dict comprehensions over a family are summarised pointwise.
"""
import ast, z3
from .vals import *
from .engine import Unsupported, PathEnd, _Continue, _Break, PyRaise
from .models import KeyIter
from . import contract as C


class LoopCtx:
    def __init__(self, I, entry, env, done, dom, it):
        self.I, self.entry, self.env, self.done, self.dom, self.it = I, entry, env, done, dom, it
        self.cur = I.snapshot()

    def f(self, obj, name, entry=False):
        return (self.entry if entry else self.cur)[obj.oid][name]

    def m(self, mp, k, entry=False):
        return (self.entry if entry else self.cur)[mp.oid]["get"](k)

    def mdom(self, mp, k, entry=False):
        return (self.entry if entry else self.cur)[mp.oid]["dom"](k)


class LoopContract:
    """invariant of a `for` over a key-indexed family"""
    qual = None
    ordinal = 0

    def havoc(self, L):
        """locations changed by the loop: list of havoc locs; local variable names in `locals_`"""
        return []

    locals_ = ()

    def inv(self, L):
        return []


def for_ordinal(I, st):
    from . import front
    fr = I.frame()
    from .engine import resolve_method
    cls, name = fr.qual.split(".") if "." in fr.qual else (None, fr.qual)
    fn = resolve_method(cls, name)[2]
    fors = sorted([n for n in ast.walk(fn) if isinstance(n, ast.For)], key=lambda n: (n.lineno, n.col_offset))
    for i, n in enumerate(fors):
        if n.lineno == st.lineno and n.col_offset == st.col_offset:
            return i
    raise Unsupported("loop not found")


def exec_for(I, st):
    if st.orelse:
        raise Unsupported("for/else")
    it = I.ev(st.iter)
    if isinstance(it, (list, tuple)) and not (it and it[0] in ("zip", "range")):
        for x in it:
            I.assign(st.target, x)
            try:
                I.block(st.body)
            except _Continue:
                continue
            except _Break:
                break
        return
    if isinstance(it, Obj) and it.kind == "objmap" and I.heap[it.oid].get("keyed_list"):
        it = KeyIter(I.heap[it.oid]["dom"], None, "rows", it)
    if isinstance(it, KeyIter):
        return foreach_key(I, st, it)
    if isinstance(it, Obj) and it.kind == "seq" and "at" in I.heap[it.oid]:
        return foreach_index(I, st, it)
    raise Unsupported("for over %r at %s:%d" % (it, I.frame().relpath, st.lineno))


def keyed_list(I, rowcls, fields, base="lst", flkinds=None):
    """A python list to which a loop over a key-indexed family appends at most one record per key, modelled as
    a family of rows indexed by that key (the record's `contract` field). Iteration order is abstracted (A7)."""
    cols = {}
    for f in fields:
        if f == "contract":
            cols[f] = lambda k: KeyV(k)
        else:
            fn = I.func("%s.%s" % (base, f), K, RealS)
            cols[f] = (lambda fn: lambda k: Fl(fn(k)))(fn)
    em = I.func("%s?in" % base, K, BoolS)
    return I.new_obj("objmap", "list", {"cols": cols, "dom": lambda k: em(k), "rowcls": rowcls, "total": False,
                                         "keyed_list": True})


def rows_empty(heap, lst):
    p = heap[lst.oid]
    return "items" in p and len(p["items"]) == 0


def bind_target(I, st_target, it, k):
    if it.kind == "rows":
        return I.assign(st_target, RowRef(it.src, k, I.heap[it.src.oid]["rowcls"]))
    if it.kind == "keys":
        I.assign(st_target, KeyV(k))
    elif it.kind == "items":
        I.assign(st_target, (KeyV(k), it.get(k)))
    else:
        I.assign(st_target, it.get(k))


def foreach_key(I, st, it):
    fr = I.frame()
    ordn = for_ordinal(I, st)
    lc = I.registry.get("loop:%s#%d" % (fr.qual, ordn))
    if lc is None:
        raise Unsupported("loop %s#%d has no loop contract" % (fr.qual, ordn))
    pfx = "%s::loop%d::" % (fr.qual, ordn)
    entry = I.snapshot()
    dom = it.dom
    # (1) initiation
    L = LoopCtx(I, entry, fr.env, lambda k: FALSE, dom, it)
    if hasattr(lc, "init_hints"):
        for cl in lc.init_hints(L):
            C.prove_clause(I, pfx + "init::lemma::", cl)
    for cl in lc.inv(L):
        C.prove_clause(I, pfx + "init::", cl)
    mode = I.choice(2)
    # havoc what the loop changes
    for loc in lc.havoc(L):
        C.havoc_loc(I, loc)
    for name in lc.locals_:
        if name in fr.env:
            fr.env[name] = C.fresh_like(I, fr.env[name], "hv_" + name)
    if mode == 0:
        donef = I.func("done", K, BoolS)
        done = lambda k: donef(k)
        L = LoopCtx(I, entry, fr.env, done, dom, it)
        for cl in lc.inv(L):
            C.assume_clause(I, cl)
        k = I.key("it")
        I.assume(z3.And(dom(k), z3.Not(donef(k))))
        start = I.snapshot()
        bind_target(I, st.target, it, k)
        try:
            I.block(st.body)
        except _Continue:
            pass
        except _Break:
            raise Unsupported("break in a contract loop")
        # the body must not change the domain being iterated (python would raise RuntimeError)
        L2 = LoopCtx(I, entry, fr.env, lambda x: z3.Or(x == k, donef(x)), dom, it)
        L2.done_before = done
        if hasattr(lc, "step_hints"):
            for cl in lc.step_hints(L2, k, start):
                C.prove_clause(I, pfx + "preserve::lemma::", cl)
        for cl in lc.inv(L2):
            C.prove_clause(I, pfx + "preserve::", cl)
        raise PathEnd("loop-iteration-verified")
    else:
        L = LoopCtx(I, entry, fr.env, dom, dom, it)
        for cl in lc.inv(L):
            C.assume_clause(I, cl)
        return


def _subst_value(v, kc, x):
    if isinstance(v, Fl):
        return Fl(z3.substitute(v.v, (kc, x)), z3.substitute(v.nan, (kc, x)))
    if isinstance(v, In):
        return In(z3.substitute(v.v, (kc, x)))
    if z3.is_expr(v):
        return z3.substitute(v, (kc, x))
    if isinstance(v, bool):
        return v
    raise Unsupported("comprehension value %r" % (v,))


def dict_comprehension(I, e):
    if len(e.generators) != 1:
        raise Unsupported("nested comprehension")
    g = e.generators[0]
    it = I.ev(g.iter)
    if isinstance(it, tuple) and it and it[0] == "zip" and len(it) == 3:
        return zip_comprehension(I, e, g, it[1], it[2])
    if not isinstance(it, KeyIter):
        ext = I.registry.get("dictcomp")
        if ext is not None:
            return ext(I, e, it)
        raise Unsupported("dict comprehension over %r" % (it,))
    fr = I.frame()
    saved = dict(fr.env)
    kc = z3.Const(I.fresh_name("kc"), K)
    I.no_fork += 1
    try:
        bind_target(I, g.target, it, kc)
        cond = it.dom(kc)
        # conditions are evaluated under the assumption that the key is in the domain
        I.solver.push()
        I.asolver.push()
        sites0, cache0 = set(I.abs.sites), set(I.abs.cache)
        I._assert(cond)
        for f in I.pw:
            I._assert(f(kc))
        try:
            for cnd in g.ifs:
                c = I.truth(I.ev(cnd))
                c = z3.BoolVal(c) if isinstance(c, bool) else c
                cond = z3.And(cond, c)
                I._assert(c)
            kv = I.ev(e.key)
            vv = I.ev(e.value)
            if not isinstance(kv, KeyV):
                raise Unsupported("comprehension key %r" % (kv,))
            if not kv.t.eq(kc):
                if I.sat_possible(kv.t != kc):
                    raise Unsupported("comprehension key is not the iteration key (no injectivity argument)")
        finally:
            I.solver.pop()
            I.asolver.pop()
            for k_ in [x for x in I.abs.sites if x not in sites0]:
                del I.abs.sites[k_]       # their axioms were popped with the scope
            for k_ in [x for x in I.abs.cache if x not in cache0]:
                del I.abs.cache[k_]
    finally:
        I.no_fork -= 1
        fr.env.clear()
        fr.env.update(saved)
    cond = z3.simplify(cond)
    vv = lift_fl(vv) if isinstance(vv, (In, int, float)) else vv
    return I.new_map(lambda x: _subst_value(vv, kc, x), lambda x: z3.substitute(cond, (kc, x)), None, "dict")


def list_comprehension(I, e):
    ext = I.registry.get("listcomp")
    if ext is not None:
        return ext(I, e)
    r = replicate_comprehension(I, e)
    if r is not None:
        return r
    raise Unsupported("list comprehension at %s:%d" % (I.frame().relpath, e.lineno))


def replicate_comprehension(I, e):
    """[elt for _ in range(n)] where elt does not mention the loop variable: a sequence of n copies of the value of elt.
    elt is evaluated once (its callee contracts are checked once); it must write nothing (checked on the write log), so that
    evaluating it n times - including 0 times - is indistinguishable."""
    if len(e.generators) != 1:
        return None
    g = e.generators[0]
    if g.ifs or g.is_async or not isinstance(g.target, ast.Name):
        return None
    it = g.iter
    if not (isinstance(it, ast.Call) and isinstance(it.func, ast.Name) and it.func.id == "range" and len(it.args) == 1 and not it.keywords):
        return None
    if any(isinstance(x, ast.Name) and x.id == g.target.id for x in ast.walk(e.elt)):
        return None
    n = I.ev(it.args[0])
    if not isinstance(n, In):
        return None
    log = []
    I.write_logs.append(log)
    try:
        v = I.ev(e.elt)
    finally:
        I.write_logs.remove(log)
    if log:
        raise Unsupported("comprehension element with side effects at %s:%d" % (I.frame().relpath, e.lineno))
    from .models import sym_seq
    ln = z3.If(n.v > 0, n.v, z3.IntVal(0))
    return sym_seq(I, lambda i, v=v: v, z3.simplify(ln), "list")


def zip_comprehension(I, e, g, keys, values):
    """{key(c): v for c, v in zip(keys, values) if ...} for a sequence of contracts whose static hashes are
    pairwise distinct: the sequence carries a ghost inverse `inv` with inv(sh(keys[i])) == i (from `requires`).
    The resulting map is dom(k) <=> 0 <= inv(k) < n and key(inv(k)) == k and cond(inv(k));  get(k) = v(inv(k))."""
    pk = I.heap[keys.oid] if isinstance(keys, Obj) and keys.kind == "seq" else None
    pv = I.heap[values.oid] if isinstance(values, Obj) and values.kind == "seq" else None
    if pk is None or pv is None or "at" not in pk or "at" not in pv or "inv" not in pk:
        raise Unsupported("zip comprehension needs a contract sequence with an inverse and a value array")
    inv = pk["inv"]
    n = pk["len"]
    fr = I.frame()
    saved = dict(fr.env)
    ic = I.int("ic")
    I.no_fork += 1
    I.solver.push()
    I.asolver.push()
    sites0, cache0 = set(I.abs.sites), set(I.abs.cache)
    try:
        I._assert(z3.And(ic >= 0, ic < n, ic < pv["len"]))
        for f in I.__dict__.get("pwi", []):
            I._assert(f(ic))
        I.assign(g.target, (pk["at"](ic), pv["at"](ic)))
        cond = TRUE
        for cnd in g.ifs:
            c = I.truth(I.ev(cnd))
            c = z3.BoolVal(c) if isinstance(c, bool) else c
            cond = z3.And(cond, c)
            I._assert(c)
        kv = I.ev(e.key)
        vv = I.ev(e.value)
        if not isinstance(kv, KeyV):
            raise Unsupported("comprehension key %r" % (kv,))
        # the key expression must be the one the inverse is an inverse of
        if I.sat_possible(inv(kv.t) != ic):
            raise Unsupported("zip comprehension: no inverse for the key expression")
    finally:
        I.solver.pop()
        I.asolver.pop()
        for k_ in [x for x in I.abs.sites if x not in sites0]:
            del I.abs.sites[k_]
        for k_ in [x for x in I.abs.cache if x not in cache0]:
            del I.abs.cache[k_]
        I.no_fork -= 1
        fr.env.clear()
        fr.env.update(saved)
    cond = z3.simplify(cond)
    vv = lift_fl(vv) if isinstance(vv, (In, int, float)) else vv
    kt = kv.t
    m = z3.If(n <= pv["len"], n, pv["len"])

    def dom(x):
        j = inv(x)
        return z3.And(j >= 0, j < m, z3.substitute(kt, (ic, j)) == x, z3.substitute(cond, (ic, j)))

    def get(x):
        return _subst_value(vv, ic, inv(x))
    return I.new_map(get, dom, None, "dict")


class IndexLoopCtx:
    def __init__(self, I, entry, env, i, n, seq):
        self.I, self.entry, self.env, self.i, self.n, self.seq = I, entry, env, i, n, seq
        self.cur = I.snapshot()


def foreach_index(I, st, seq):
    """`for x in <sequence of symbolic length>` by an index invariant: I(0); I(i) & 0<=i<n |- body |- I(i+1); I(n) |- rest.
    The sequence object must not be modified by the body (python would misbehave): checked through the write log."""
    fr = I.frame()
    ordn = for_ordinal(I, st)
    lc = I.registry.get("loop:%s#%d" % (fr.qual, ordn))
    if lc is None:
        raise Unsupported("loop %s#%d has no loop contract" % (fr.qual, ordn))
    pfx = "%s::loop%d::" % (fr.qual, ordn)
    entry = I.snapshot()
    p = entry[seq.oid]
    n, at = p["len"], p["at"]
    L = IndexLoopCtx(I, entry, fr.env, z3.IntVal(0), n, seq)
    for cl in lc.inv(L):
        C.prove_clause(I, pfx + "init::", cl)
    mode = I.choice(2)
    hv = lc.havoc(L)
    for loc in hv:
        if callable(loc):
            loc(I)                   # custom havoc of locations whose shape may change (e.g. None -> value)
        else:
            C.havoc_loc(I, loc)
    for name in lc.locals_:
        if name in fr.env:
            fr.env[name] = C.fresh_like(I, fr.env[name], "hv_" + name)
    if mode == 0:
        i = I.idx("i")
        I.assume(z3.And(0 <= i, i < n))
        L = IndexLoopCtx(I, entry, fr.env, i, n, seq)
        for cl in lc.inv(L):
            C.assume_clause(I, cl)
        I.assign(st.target, at(i))
        log = set()
        I.write_logs.append(log)
        try:
            I.block(st.body)
        except _Continue:
            pass
        except _Break:
            raise Unsupported("break in a contract loop")
        finally:
            I.write_logs.pop()
        I.obls.append(C.Obligation(pfx + "preserve::iterated_sequence_not_modified", "sat" if any(o == seq.oid for o, _ in log) else "unsat",
                                   "engine(write log)", 0, path=list(I.dec), model={} if any(o == seq.oid for o, _ in log) else None))
        # frame of the loop: whatever the body writes in objects that existed at loop entry must be among the havocked locations
        frame = list(getattr(lc, "frame", lambda L: [x for x in hv if not callable(x)])(L))
        objs = set(x[1].oid for x in frame if x[0] == "obj")
        fields = set((x[1].oid, x[2]) for x in frame if x[0] == "field")
        cols = set(x[1].oid for x in frame if x[0] == "col")
        outside = sorted(str((o, w)) for o, w in log if o in entry and o != seq.oid and o not in objs and o not in cols and (o, w) not in fields)
        I.obls.append(C.Obligation(pfx + "preserve::frame", "sat" if outside else "unsat", "engine(write log)", 0, path=list(I.dec),
                                   model={"written_outside_loop_frame": outside} if outside else None))
        I.add_idx(i + 1)
        L2 = IndexLoopCtx(I, entry, fr.env, i + 1, n, seq)
        for cl in lc.inv(L2):
            C.prove_clause(I, pfx + "preserve::", cl)
        raise PathEnd("loop-iteration-verified")
    L = IndexLoopCtx(I, entry, fr.env, n, n, seq)
    for cl in lc.inv(L):
        C.assume_clause(I, cl)
