"""Symbolic executor for the Python subset used by tradingenv's core (DESIGN §4.3/4.4).

* paths are enumerated by re-execution with a decision prefix (no state cloning);
* every fork is checked for feasibility against the incremental path solver;
* calls to functions that have a contract are taken *by contract* (assert requires, havoc modifies,
  assume ensures, fork on raises); other repo functions are inlined;
* loops need a loop contract (invariant) unless their iterable is a concrete python list;
* quantified facts are kept as python functions key -> formula ("pointwise facts") and are
  instantiated on every key term of the path, so every SMT query is quantifier free.
"""
import os, sys, ast, os, z3
from . import front
from .vals import *

SOLVER_TIMEOUT_MS = int(os.environ.get("VERIF_SOLVER_TIMEOUT_MS", "20000"))
ABS_TIMEOUT_MS = int(os.environ.get("VERIF_ABS_TIMEOUT_MS", "30000"))
FEAS_TIMEOUT_MS = int(os.environ.get("VERIF_FEAS_TIMEOUT_MS", "300"))


class Unsupported(Exception):
    pass


class PathEnd(Exception):
    def __init__(self, reason):
        self.reason = reason


class PyRaise(Exception):
    def __init__(self, typ, origin=""):
        self.typ, self.origin = typ, origin


class _Return(Exception):
    def __init__(self, val):
        self.val = val


class _Continue(Exception):
    pass


class _Break(Exception):
    pass


EXC_PARENTS = {
    "KeyError": "LookupError", "IndexError": "LookupError", "LookupError": "Exception",
    "ValueError": "Exception", "TypeError": "Exception", "AttributeError": "Exception",
    "ZeroDivisionError": "ArithmeticError", "ArithmeticError": "Exception",
    "StopIteration": "Exception", "NotImplementedError": "RuntimeError", "RuntimeError": "Exception",
    "EndOfEpisodeError": "Exception", "NotFittedError": "ValueError",
}


def exc_matches(typ, handler):
    while typ is not None:
        if typ == handler:
            return True
        typ = EXC_PARENTS.get(typ)
    return False


# ------------------------------------------------------------------------------ class table
_class_table = None


def class_table():
    """class name -> (relpath, [base names]) for every class in the repo package."""
    global _class_table
    if _class_table is None:
        t = {}
        root = os.path.join(front.REPO, "tradingenv")
        for d, _, files in os.walk(root):
            for f in sorted(files):
                if f.endswith(".py"):
                    rel = os.path.relpath(os.path.join(d, f), front.REPO)
                    try:
                        tree = front.module_ast(rel)
                    except SyntaxError:
                        continue
                    for n in tree.body:
                        if isinstance(n, ast.ClassDef):
                            bases = [b.id if isinstance(b, ast.Name) else getattr(b, "attr", "?") for b in n.bases]
                            t.setdefault(n.name, (rel, bases))
        _class_table = t
    return _class_table


def resolve_method(cls, name):
    """MRO lookup (left-to-right, depth first; enough for the single/linear hierarchies here)."""
    t = class_table()
    seen = set()
    stack = [cls]
    while stack:
        c = stack.pop(0)
        if c in seen or c not in t:
            continue
        seen.add(c)
        rel, bases = t[c]
        for n in front.find_class(rel, c).body:
            if isinstance(n, ast.FunctionDef) and n.name == name:
                return rel, c + "." + name, n
        stack = list(bases) + stack
    return None


def resolve_class_const(cls, name):
    t = class_table()
    stack = [cls]
    seen = set()
    while stack:
        c = stack.pop(0)
        if c in seen or c not in t:
            continue
        seen.add(c)
        rel, bases = t[c]
        for n in front.find_class(rel, c).body:
            if isinstance(n, ast.Assign) and len(n.targets) == 1 and isinstance(n.targets[0], ast.Name) \
                    and n.targets[0].id == name:
                return rel, n.value
            if isinstance(n, ast.AnnAssign) and isinstance(n.target, ast.Name) and n.target.id == name \
                    and n.value is not None:
                return rel, n.value
        stack = list(bases) + stack
    return None


def is_subclass(cls, base):
    t = class_table()
    stack = [cls]
    seen = set()
    while stack:
        c = stack.pop()
        if c == base:
            return True
        if c in seen or c not in t:
            continue
        seen.add(c)
        stack.extend(t[c][1])
    return False


# ------------------------------------------------------------------------------ obligations
class Obligation:
    __slots__ = ("name", "verdict", "backend", "ms", "model", "path", "detail", "smt2", "kind", "known_ids")

    def __init__(self, name, verdict, backend, ms, model=None, path=None, detail="", smt2=None, kind="vc"):
        self.name, self.verdict, self.backend, self.ms = name, verdict, backend, ms
        self.model, self.path, self.detail, self.smt2, self.kind = model, path, detail, smt2, kind
        self.known_ids = []


def memo(fn):
    """cache a key->value closure by z3 ast id (closures are immutable once installed)"""
    cache = {}

    def g(x):
        i = x.get_id()
        r = cache.get(i)
        if r is None:
            r = fn(x)
            cache[i] = (r, x)     # keep x alive so ids are not reused
            return r
        return r[0]
    return g


class Frame:
    """one activation record"""

    def __init__(self, relpath, qual, env):
        self.relpath, self.qual, self.env = relpath, qual, env
        self.loop_ordinal = 0


class Interp:
    def __init__(self, prefix, registry, opts=None):
        CURRENT[0] = self
        self.dec = list(prefix)
        self.forkable = [False] * len(prefix)
        self.nalts = [2] * len(prefix)
        self.di = 0
        self.registry = registry
        self.opts = opts or {}
        self.solver = z3.Solver()
        self.solver.set("timeout", SOLVER_TIMEOUT_MS)
        from .abstraction import Abstractor
        self.asolver = z3.Solver()          # the same assertions with non-linear arithmetic abstracted to UFs
        self.asolver.set("timeout", ABS_TIMEOUT_MS)
        self.abs = Abstractor(self.asolver)
        self.heap = {}
        self.next_oid = 0
        self.keys = []
        self.pw = []
        self.counters = {}
        self.obls = []
        self.frames = []
        self.witness = {}        # name -> z3 term, reported from models
        self.version = 0         # heap version (bumped on every write)
        self.gsums = {}
        self.trace = []          # ghost effect trace
        self.inline_depth = 0
        self.target = None       # (relpath, qual) being verified: its body is executed, not its contract
        self.pow_sites = []
        self.write_logs = []
        self.consumed_nalts = []
        self.first_new_oid = 0
        self.no_fork = 0
        self.log = []

    # ---------------------------------------------------------------- symbols, facts, keys
    def fresh_name(self, base):
        n = self.counters.get(base, 0)
        self.counters[base] = n + 1
        return base if n == 0 else "%s!%d" % (base, n)

    def real(self, base):
        return z3.Real(self.fresh_name(base))

    def int(self, base):
        return z3.Int(self.fresh_name(base))

    def bool(self, base):
        return z3.Bool(self.fresh_name(base))

    def tm(self, base):
        return Tm(z3.Real(self.fresh_name(base)))

    def fl(self, base, may_nan=False):
        n = self.fresh_name(base)
        return Fl(z3.Real(n), z3.Bool(n + "?nan") if may_nan else FALSE)

    def key(self, base):
        k = z3.Const(self.fresh_name(base), K)
        self.add_key(k)
        return k

    def skolem(self):
        """the arbitrary key used to prove pointwise (forall k) goals on this path.  One constant is
        enough: nothing is ever assumed about it except instances of universally quantified facts and
        goals already proved for it."""
        if getattr(self, "_skolem", None) is None:
            self._skolem = self.key("k*")
        return self._skolem

    def func(self, base, *sorts):
        return z3.Function(self.fresh_name(base), *sorts)

    def add_key(self, k):
        for e in self.keys:
            if e.eq(k):
                return
        depth = getattr(self, "_inst_depth", 0)
        if depth >= 2:
            return               # terms generated while instantiating on derived keys: not instantiation targets
        self.keys.append(k)
        self._inst_depth = depth + 1
        try:
            for f in list(self.pw):
                self._assert(f(k))
        finally:
            self._inst_depth = depth

    def _assert(self, fml):
        if fml is True or fml is None:
            return
        if fml is False:
            fml = FALSE
        if fml is True:
            return
        self.solver.add(fml)
        self.asolver.add(self.abs.ab(fml))

    def assume(self, fml):
        self._assert(fml)

    # ---- pointwise facts over integer indices (sequences): same scheme as for keys
    def add_idx(self, i):
        lst = self.__dict__.setdefault("idxs", [])
        for e in lst:
            if e.eq(i):
                return
        depth = getattr(self, "_inst_depth", 0)
        if depth >= 2:
            return
        lst.append(i)
        self._inst_depth = depth + 1
        try:
            for f in list(self.__dict__.setdefault("pwi", [])):
                self._assert(f(i))
        finally:
            self._inst_depth = depth

    def idx(self, base):
        i = z3.Int(self.fresh_name(base))
        self.add_idx(i)
        return i

    def skolem_idx(self):
        if getattr(self, "_skolem_i", None) is None:
            self._skolem_i = self.idx("i*")
        return self._skolem_i

    def assume_pwi(self, f):
        """assume forall i:Int. f(i); instantiated on every index term of the path"""
        self.__dict__.setdefault("pwi", []).append(f)
        depth = getattr(self, "_inst_depth", 0)
        self._inst_depth = depth + 1
        try:
            for i in list(self.__dict__.setdefault("idxs", [])):
                self._assert(f(i))
        finally:
            self._inst_depth = depth

    def assume_pwi2(self, f):
        """assume forall i,j:Int. f(i,j); instantiated on every ordered pair of index terms of the path (few)"""
        lst = self.__dict__.setdefault("pwi2", [])
        lst.append(f)
        self.assume_pwi(lambda i: z3.And(*[f(i, j) for j in self.__dict__.get("idxs", [])] +
                                         [f(j, i) for j in self.__dict__.get("idxs", [])]) if self.__dict__.get("idxs") else TRUE)

    def assume_pw(self, f):
        """assume forall k. f(k)   (f: z3 key term -> formula); instantiated on all keys of the path"""
        self.pw.append(f)
        depth = getattr(self, "_inst_depth", 0)
        self._inst_depth = depth + 1
        try:
            for k in list(self.keys):
                self._assert(f(k))
        finally:
            self._inst_depth = depth

    def use_lemma(self, name, formula):
        """A context-free arithmetic lemma: `formula` must be valid on its own (checked in a fresh solver, no
        path condition), and is then available on this path.  Keeps hard non-linear steps out of the big queries."""
        from .engine import Obligation
        import time as _t
        t0 = _t.time()
        key = formula.get_id()
        s = z3.Solver()
        s.set("timeout", 20000)
        s.add(z3.Not(formula))
        r = s.check()
        v = "unsat" if r == z3.unsat else ("sat" if r == z3.sat else "unknown")
        backend = "z3-5.1(py,fresh,context-free)"
        if v == "unknown":
            from .solve import cvc5_cli
            v, _ = cvc5_cli(s.to_smt2(), 30)
            backend = "cvc5-1.0.3(cli,context-free)"
        ob = Obligation(name, v, backend, int((_t.time() - t0) * 1000), path=list(self.dec), kind="vc",
                        detail="context-free arithmetic lemma")
        self.obls.append(ob)
        if v == "unsat":
            self._assert(formula)
        return ob

    def sat_possible(self, cond=None):
        """False only if the path condition (plus cond) is certainly unsatisfiable."""
        from .solve import over_budget
        if over_budget():
            return True
        self.asolver.set("timeout", 3000)
        try:
            if cond is None:
                if self.asolver.check() == z3.unsat:
                    return False
            elif self.asolver.check(self.abs.ab(cond)) == z3.unsat:
                return False
        finally:
            self.asolver.set("timeout", ABS_TIMEOUT_MS)
        self.solver.set("timeout", FEAS_TIMEOUT_MS)
        try:
            r = self.solver.check() if cond is None else self.solver.check(cond)
        finally:
            self.solver.set("timeout", SOLVER_TIMEOUT_MS)
        return r != z3.unsat

    def feasible(self):
        return self.sat_possible()

    # ---------------------------------------------------------------- decisions
    def _decide(self, nalts, feas):
        """feas(i) -> bool: is alternative i feasible? Returns the chosen alternative."""
        if self.di < len(self.dec):
            d = self.dec[self.di]
            self.di += 1
            self.consumed_nalts.append(nalts)
            return d
        ok = [i for i in range(nalts) if feas(i)]
        if not ok:
            self.log.append("infeasible at %s:%s" % getattr(self, "_cur_stmt", ("?", "?")))
            if os.environ.get("VERIF_DEBUG"):
                print("infeasible at %s:%s" % getattr(self, "_cur_stmt", ("?", "?")), file=sys.stderr)
            raise PathEnd("infeasible")
        d = ok[0]
        self.dec.append(d)
        self.forkable.append(len(ok) > 1)
        self.nalts.append(ok[1:])
        self.di += 1
        return d

    def branch(self, cond):
        if isinstance(cond, bool):
            return cond
        cond = z3.simplify(cond)
        if z3.is_true(cond):
            return True
        if z3.is_false(cond):
            return False
        if self.no_fork:
            if not self.sat_possible(z3.Not(cond)):
                return True
            if not self.sat_possible(cond):
                return False
            raise Unsupported("fork inside a pointwise summary")
        alts = [cond, z3.Not(cond)]
        d = self._decide(2, lambda i: self.sat_possible(alts[i]))
        self._assert(alts[d])
        return d == 0

    def choice(self, n):
        return self._decide(n, lambda i: True)

    # ---------------------------------------------------------------- obligations
    def oblige(self, name, goal, kind="vc", detail="", known=None):
        """Check `goal` under the current path condition; record the verdict; then assume it.
        known: [(finding id, region formula)] - a `sat` whose every model lies in a recorded region is `known`."""
        from .solve import discharge
        ob = discharge(self, name, goal, kind=kind, detail=detail)
        if ob.verdict == "sat" and known:
            regions = z3.Or(*[r for _, r in known])
            ob2 = discharge(self, name, z3.Or(regions, goal), kind=kind, detail=detail)
            if ob2.verdict == "unsat":
                hit = [fid for fid, r in known if self.solver.check(z3.Not(goal), r) == z3.sat]
                if not hit:
                    hit = [fid for fid, r in known]
                ob.verdict = "known"
                ob.detail = (detail + " | " if detail else "") + "violations confined to recorded region(s) " + ",".join(hit)
                ob.known_ids = hit
                goal = z3.Or(regions, goal)
        self.obls.append(ob)
        if ob.verdict in ("unsat", "known"):
            # discharged: may be used afterwards
            self._assert(goal if not isinstance(goal, bool) else z3.BoolVal(goal))
        return ob

    # ---------------------------------------------------------------- heap
    def new_obj(self, kind, cls, payload):
        oid = self.next_oid
        self.next_oid += 1
        self.heap[oid] = payload
        return Obj(oid, kind, cls)

    def new_rec(self, cls, **fields):
        return self.new_obj("rec", cls, dict(fields))

    def new_map(self, get, dom, default=None, cls="dict"):
        """get: key term -> value ; dom: key term -> Bool ; default: None | 'float'"""
        return self.new_obj("map", cls, {"get": get, "dom": dom, "default": default})

    def sym_map(self, base, default=None, may_nan=False, cls=None, total_default_zero=True):
        f = self.func(base, K, RealS)
        d = self.func(base + "?dom", K, BoolS)
        if may_nan:
            n = self.func(base + "?nan", K, BoolS)
            get = lambda k: Fl(f(k), n(k))
        else:
            get = lambda k: Fl(f(k))
        m = self.new_map(get, lambda k: d(k), default, cls or ("defaultdict" if default else "dict"))
        if default == "float" and total_default_zero:
            # representation invariant of defaultdict(float): absent keys read as 0.0
            self.assume_pw(lambda k: z3.Implies(z3.Not(d(k)), f(k) == 0))
        return m

    def snapshot(self):
        snap = {"__ver__": self.version}
        for oid, p in self.heap.items():
            q = dict(p)
            if "cols" in q:
                q["cols"] = dict(q["cols"])
            snap[oid] = q
        return snap

    snapshot_tagged = snapshot

    def wrote(self, oid, what):
        self.version += 1
        for fr in self.write_logs:
            fr.add((oid, what))

    def fget(self, obj, name, heap=None):
        return (heap or self.heap)[obj.oid][name]

    def fset(self, obj, name, val):
        self.heap[obj.oid][name] = val
        self.wrote(obj.oid, name)

    def mget(self, m, k, heap=None):
        return (heap or self.heap)[m.oid]["get"](k)

    def mdom(self, m, k, heap=None):
        return (heap or self.heap)[m.oid]["dom"](k)

    def mset(self, m, k, val):
        p = self.heap[m.oid]
        og, od = p["get"], p["dom"]
        p["get"] = memo(lambda x, og=og, k=k, val=val: vite(x == k, val, og(x)))
        p["dom"] = memo(lambda x, od=od, k=k: z3.simplify(z3.Or(x == k, od(x))))
        self.wrote(m.oid, "[]")

    def mtouch(self, m, k):
        """defaultdict read of a missing key inserts it (value = default)."""
        p = self.heap[m.oid]
        od = p["dom"]
        p["dom"] = memo(lambda x, od=od, k=k: z3.simplify(z3.Or(x == k, od(x))))

    def col(self, m, field, k, heap=None):
        return (heap or self.heap)[m.oid]["cols"][field](k)

    def colset(self, m, field, k, val):
        p = self.heap[m.oid]
        oc = p["cols"][field]
        if val is None:
            val = nanval()        # a float-typed column set to None (e.g. LimitOrderBook.time): "no value"
        p["cols"][field] = memo(lambda x, oc=oc, k=k, val=val: vite(x == k, val, oc(x)))
        self.wrote(m.oid, field)

    # ---------------------------------------------------------------- running a repo function
    def frame(self):
        return self.frames[-1]

    def exec_function(self, relpath, qual, fn, args, kwargs=None):
        """Execute the body of a repo function. args: positional values (self included)."""
        kwargs = dict(kwargs or {})
        names = front.params(fn)
        env = {}
        if len(args) > len(names):
            raise Unsupported("too many positional arguments for %s" % qual)
        for n, v in zip(names, args):
            env[n] = v
        for n, v in kwargs.items():
            if n not in names:
                raise Unsupported("unexpected keyword %s for %s" % (n, qual))
            env[n] = v
        defaults = fn.args.defaults
        for n, d in zip(names[len(names) - len(defaults):], defaults):
            if n not in env:
                self.frames.append(Frame(relpath, qual, {}))
                try:
                    env[n] = self.ev(d)
                finally:
                    self.frames.pop()
        for n in names:
            if n not in env:
                raise Unsupported("missing argument %s for %s" % (n, qual))
        self.frames.append(Frame(relpath, qual, env))
        if len(self.frames) > 12:
            raise Unsupported("call depth")
        try:
            self.block(fn.body)
            return None
        except _Return as r:
            return r.val
        finally:
            self.frames.pop()

    def call_repo(self, cls, name, recv, args, kwargs=None):
        r = resolve_method(cls, name)
        if r is None:
            raise Unsupported("no method %s.%s in the repo" % (cls, name))
        relpath, qual, fn = r
        allargs = ([recv] if recv is not None else []) + list(args)
        con = self.registry.get(qual)
        if con is not None and (relpath, qual) != self.target_now():
            return con.apply(self, fn, allargs, kwargs or {})
        if (relpath, qual) == self.target_now():
            self._target_entered = True
            saved = self.target
            self.target = None        # recursion / nested calls of the same function go by contract
            try:
                return self.exec_function(relpath, qual, fn, allargs, kwargs)
            finally:
                self.target = saved
        if self.opts.get("no_inline"):
            raise Unsupported("call of %s without a contract" % qual)
        self.log.append("inlined %s" % qual)
        return self.exec_function(relpath, qual, fn, allargs, kwargs)

    def target_now(self):
        return self.target

    # ---------------------------------------------------------------- statements
    def block(self, stmts):
        for st in stmts:
            self._cur_stmt = (self.frame().relpath, st.lineno)
            m = getattr(self, "s_" + type(st).__name__, None)
            if m is None:
                raise Unsupported("statement %s at %s:%d" % (type(st).__name__, self.frame().relpath, st.lineno))
            m(st)

    def s_Expr(self, st):
        if isinstance(st.value, ast.Constant):
            return
        self.ev(st.value)

    def s_Pass(self, st):
        pass

    def s_Assign(self, st):
        v = self.ev(st.value)
        for t in st.targets:
            self.assign(t, v)

    def s_AnnAssign(self, st):
        if st.value is not None:
            self.assign(st.target, self.ev(st.value))

    def s_AugAssign(self, st):
        load = ast.fix_missing_locations(ast.copy_location(_as_load(st.target), st.target))
        cur = self.ev(load)
        rhs = self.ev(st.value)
        if isinstance(st.op, ast.Add) and isinstance(cur, Obj) and cur.kind == "seq" and self.heap[cur.oid].get("pytype") in ("list", "deque") \
                and "at" in self.heap[cur.oid] and isinstance(rhs, Obj) and rhs.kind == "seq" and "at" in self.heap[rhs.oid]:
            # list += list extends the *same* object in place (every alias sees it), then rebinds the target to it
            p, q = self.heap[cur.oid], self.heap[rhs.oid]
            n0, at0, at1 = p["len"], p["at"], q["at"]
            p["at"] = lambda i, n0=n0, at0=at0, at1=at1: vite(i < n0, at0(i), at1(i - n0))
            p["len"] = z3.simplify(n0 + q["len"])
            self.wrote(cur.oid, "items")
            self.assign(st.target, cur)
            return
        self.assign(st.target, self.binop(st.op, cur, rhs, st))

    def assign(self, t, v):
        if isinstance(t, ast.Name):
            self.frame().env[t.id] = v
        elif isinstance(t, ast.Attribute):
            o = self.ev(t.value)
            if isinstance(o, Obj) and o.kind == "rec":
                self.fset(o, t.attr, v)
            elif isinstance(o, ClassRef):
                # process-wide class attribute (e.g. AbstractContract.now): a global location
                self.__dict__.setdefault("class_attrs", {})[(o.name, t.attr)] = v
                self.trace.append(("global_write", "%s.%s" % (o.name, t.attr)))
                self.wrote(-1, "%s.%s" % (o.name, t.attr))
            elif isinstance(o, RowRef):
                hook = self.heap[o.m.oid].get("setattr_hook")
                if hook is None or not hook(self, o, t.attr, v):
                    self.colset(o.m, t.attr, o.k, v)
            else:
                raise Unsupported("attribute store on %r" % (o,))
        elif isinstance(t, ast.Subscript):
            o = self.ev(t.value)
            k = self.ev(t.slice)
            self.setitem(o, k, v)
        elif isinstance(t, (ast.Tuple, ast.List)):
            if not isinstance(v, (tuple, list)) or len(v) != len(t.elts):
                raise Unsupported("tuple assignment of %r" % (v,))
            for tt, vv in zip(t.elts, v):
                self.assign(tt, vv)
        else:
            raise Unsupported("assignment target %s" % type(t).__name__)

    def setitem(self, o, k, v):
        if isinstance(o, Obj) and o.kind == "map":
            if not isinstance(k, KeyV):
                raise Unsupported("map key %r" % (k,))
            self.add_key(k.t)
            self.mset(o, k.t, v)
        elif isinstance(o, Obj) and o.kind == "rec" and "_items" in self.heap[o.oid]:
            self.setitem(self.heap[o.oid]["_items"], k, v)
        elif hasattr(o, "py_setitem"):
            o.py_setitem(self, k, v)
        elif isinstance(o, Obj) and o.kind == "seq":
            from . import models
            models.seq_setitem(self, o, k, v)
        else:
            raise Unsupported("subscript store on %r" % (o,))

    def s_If(self, st):
        c = self.truth(self.ev(st.test))
        self.block(st.body if self.branch(c) else st.orelse)

    def s_Return(self, st):
        raise _Return(self.ev(st.value) if st.value is not None else None)

    def s_Continue(self, st):
        raise _Continue()

    def s_Break(self, st):
        raise _Break()

    def s_Raise(self, st):
        if st.exc is None:
            raise Unsupported("bare raise")
        e = st.exc
        if isinstance(e, ast.Call):
            e = e.func                       # message text is dropped (DESIGN §4.2)
        if isinstance(e, ast.Name):
            raise PyRaise(e.id, "%s:%d" % (self.frame().qual, st.lineno))
        raise Unsupported("raise of a non-name")

    def s_Try(self, st):
        if st.finalbody:
            raise Unsupported("try/finally")
        try:
            self.block(st.body)
        except PyRaise as r:
            for h in st.handlers:
                names = []
                if h.type is None:
                    names = ["Exception"]
                elif isinstance(h.type, ast.Name):
                    names = [h.type.id]
                elif isinstance(h.type, ast.Tuple):
                    names = [e.id for e in h.type.elts]
                if any(exc_matches(r.typ, n) for n in names):
                    self.block(h.body)
                    return
            raise
        else:
            self.block(st.orelse)

    def s_Assert(self, st):
        c = self.truth(self.ev(st.test))
        if not self.branch(c):
            raise PyRaise("AssertionError", "%s:%d" % (self.frame().qual, st.lineno))

    def s_For(self, st):
        from . import loops
        loops.exec_for(self, st)

    def s_While(self, st):
        raise Unsupported("while loop at %s:%d" % (self.frame().relpath, st.lineno))

    # ---------------------------------------------------------------- expressions
    def ev(self, e):
        m = getattr(self, "e_" + type(e).__name__, None)
        if m is None:
            raise Unsupported("expression %s at %s:%d" % (type(e).__name__, self.frame().relpath, getattr(e, "lineno", 0)))
        return m(e)

    def e_Constant(self, e):
        v = e.value
        if v is Ellipsis:
            return Opaque("...")
        if isinstance(v, bool) or v is None or isinstance(v, str):
            return v
        if isinstance(v, int):
            return In(v)
        if isinstance(v, float):
            return Fl(v)
        raise Unsupported("constant %r" % (v,))

    def e_JoinedStr(self, e):
        return Opaque("str")

    def e_Name(self, e):
        from . import models
        fr = self.frame()
        if e.id in fr.env:
            return fr.env[e.id]
        return models.global_name(self, fr.relpath, e.id)

    def e_Attribute(self, e):
        o = self.ev(e.value)
        return self.getattr(o, e.attr)

    def getattr(self, o, attr):
        from . import models
        if isinstance(o, Obj) and o.kind == "rec":
            f = self.heap[o.oid]
            if attr in f:
                return f[attr]
            r = resolve_method(o.cls, attr)
            if r is not None:
                relpath, qual, fn = r
                if front.is_property(fn):
                    return self.call_repo(o.cls, attr, o, [])
                return BoundMethod(o, attr)
            c = resolve_class_const(o.cls, attr)
            if c is not None:
                rel, node = c
                self.frames.append(Frame(rel, o.cls, {}))
                try:
                    return self.ev(node)
                finally:
                    self.frames.pop()
            if "_items" in f and attr in ("items", "keys", "values", "get", "copy"):
                return BoundMethod(f["_items"], attr)
            mm = self.registry.get("method:%s.%s" % (o.cls, attr)) or self.registry.get("method:*.%s" % attr)
            if mm is not None:
                return BoundMethod(("model", mm, o), attr)
            v = self.unmodelled_attr(o, attr)
            if v is not None:
                return v
            raise Unsupported("attribute %s.%s" % (o.cls, attr))
        if isinstance(o, RowRef):
            cols = self.heap[o.m.oid]["cols"]
            hook = self.heap[o.m.oid].get("getattr_hook")
            if hook is not None:
                hv = hook(self, o, attr)
                if hv is not None:
                    return hv
            if attr in cols:
                return cols[attr](o.k)
            r = resolve_method(o.cls, attr)
            if r is not None:
                relpath, qual, fn = r
                if front.is_property(fn):
                    return self.call_repo(o.cls, attr, o, [])
                return BoundMethod(o, attr)
            raise Unsupported("attribute %s.%s" % (o.cls, attr))
        return models.getattr_value(self, o, attr)

    def unmodelled_attr(self, o, attr):
        """an instance attribute that the class's __init__ assigns but the contract's state model does not
        contain: state outside the abstraction.  It is given an arbitrary value of the assigned shape."""
        r = resolve_method(o.cls, "__init__")
        if r is None:
            return None
        for n in ast.walk(r[2]):
            tgt = val = None
            if isinstance(n, ast.Assign) and len(n.targets) == 1:
                tgt, val = n.targets[0], n.value
            elif isinstance(n, ast.AnnAssign):
                tgt, val = n.target, n.value
            if isinstance(tgt, ast.Attribute) and isinstance(tgt.value, ast.Name) and tgt.value.id == "self" \
                    and tgt.attr == attr and val is not None:
                v = self.arbitrary_like(val, "%s.%s" % (o.cls, attr))
                self.heap[o.oid][attr] = v
                self.log.append("unmodelled attribute %s.%s treated as arbitrary state" % (o.cls, attr))
                return v
        return None

    def arbitrary_like(self, node, tag):
        if isinstance(node, ast.Tuple):
            return tuple(self.arbitrary_like(e, tag) for e in node.elts)
        if isinstance(node, ast.Constant):
            if isinstance(node.value, bool):
                return self.bool("arb_" + tag)
            if isinstance(node.value, float):
                return self.fl("arb_" + tag, may_nan=True)
            if isinstance(node.value, int):
                return In(self.int("arb_" + tag))
        if isinstance(node, ast.UnaryOp) and isinstance(node.operand, ast.Constant):
            return self.arbitrary_like(node.operand, tag)
        return Arb(tag)

    def e_Subscript(self, e):
        o = self.ev(e.value)
        if isinstance(e.slice, ast.Slice):
            from . import models
            return models.slice_value(self, o, e.slice)
        k = self.ev(e.slice)
        return self.getitem(o, k)

    def getitem(self, o, k):
        from . import models
        if isinstance(o, Obj) and o.kind == "map":
            if not isinstance(k, KeyV):
                raise Unsupported("map key %r" % (k,))
            self.add_key(k.t)
            p = self.heap[o.oid]
            if p["default"] is None:
                if not self.branch(p["dom"](k.t)):
                    raise PyRaise("KeyError", "subscript")
                return p["get"](k.t)
            self.mtouch(o, k.t)
            return p["get"](k.t)
        if isinstance(o, Obj) and o.kind == "rec":
            r = resolve_method(o.cls, "__getitem__")
            if r is not None:
                return self.call_repo(o.cls, "__getitem__", o, [k])
            if "_items" in self.heap[o.oid]:
                return self.getitem(self.heap[o.oid]["_items"], k)
        return models.getitem_value(self, o, k)

    def e_BinOp(self, e):
        return self.binop(e.op, self.ev(e.left), self.ev(e.right), e)

    def binop(self, op, a, b, node=None):
        from . import models
        if isinstance(op, (ast.BitOr, ast.BitAnd)) and (isinstance(a, bool) or is_symbool(a)) and (isinstance(b, bool) or is_symbool(b)):
            return _or(a, b) if isinstance(op, ast.BitOr) else _and(a, b)
        if isinstance(a, Obj) and a.kind == "rec" and isinstance(op, ast.Sub) and resolve_method(a.cls, "__sub__"):
            return self.call_repo(a.cls, "__sub__", a, [b])
        if isinstance(a, In) and isinstance(b, In):
            if isinstance(op, ast.Add):
                return In(a.v + b.v)
            if isinstance(op, ast.Sub):
                return In(a.v - b.v)
            if isinstance(op, ast.Mult):
                return In(a.v * b.v)
            if isinstance(op, ast.FloorDiv):
                self.oblige("%s::safety::div0" % self.frame().qual, b.v != 0, kind="safety")
                return In(models.floordiv(a.v, b.v))
            if isinstance(op, ast.Mod):
                self.oblige("%s::safety::div0" % self.frame().qual, b.v != 0, kind="safety")
                return In(models.pymod(a.v, b.v))
            if isinstance(op, ast.Div):
                pass  # falls to float
            elif isinstance(op, ast.Pow):
                pass
            else:
                raise Unsupported("int op %s" % type(op).__name__)
        if isinstance(a, (Fl, In, int, float)) and isinstance(b, (Fl, In, int, float)):
            a, b = lift_fl(a), lift_fl(b)
            nan = z3.simplify(z3.Or(a.nan, b.nan))
            if isinstance(op, ast.Add):
                return Fl(a.v + b.v, nan)
            if isinstance(op, ast.Sub):
                return Fl(a.v - b.v, nan)
            if isinstance(op, ast.Mult):
                return Fl(a.v * b.v, nan)
            if isinstance(op, ast.Div):
                self.oblige("%s::safety::div0" % self.frame().qual, z3.Or(b.v != 0, nan), kind="safety")
                return Fl(a.v / b.v, nan)
            if isinstance(op, ast.Pow):
                return Fl(models.power(self, a.v, b.v), nan)
            if isinstance(op, ast.FloorDiv):
                # float // float and timedelta // timedelta: the floor of the quotient
                self.oblige("%s::safety::div0" % self.frame().qual, z3.Or(b.v != 0, nan), kind="safety")
                return Fl(z3.ToReal(z3.ToInt(a.v / b.v)), nan)
            raise Unsupported("float op %s" % type(op).__name__)
        return models.binop_value(self, op, a, b)

    def e_UnaryOp(self, e):
        a = self.ev(e.operand)
        if isinstance(e.op, ast.Not):
            return _not(self.truth(a))
        if isinstance(e.op, ast.USub):
            if isinstance(a, In):
                return In(-a.v)
            a = lift_fl(a)
            return Fl(-a.v, a.nan)
        if isinstance(e.op, ast.UAdd):
            return a
        raise Unsupported("unary op")

    def e_BoolOp(self, e):
        # python semantics: short circuit, returns one of the operands
        vals = e.values
        is_and = isinstance(e.op, ast.And)
        cur = self.ev(vals[0])
        for nxt in vals[1:]:
            t = self.truth(cur)
            if isinstance(t, bool):
                if t == is_and:
                    cur = self.ev(nxt)
                continue
            if is_symbool(cur) or isinstance(cur, bool):
                # boolean-valued: evaluate the right operand only on the path where it is needed
                if self.branch(t) == is_and:
                    cur = self.ev(nxt)
                else:
                    cur = (not is_and)
                continue
            # non-boolean operand with symbolic truthiness (e.g. `x or default`)
            if self.branch(t) == is_and:
                cur = self.ev(nxt)
        return cur

    def e_Compare(self, e):
        left = self.ev(e.left)
        res = None
        for op, rn in zip(e.ops, e.comparators):
            right = self.ev(rn)
            c = self.compare(op, left, right)
            res = c if res is None else _and(res, c)
            left = right
        return res

    def compare(self, op, a, b):
        from . import models
        if isinstance(a, Arb) or isinstance(b, Arb):
            if isinstance(op, (ast.Eq, ast.NotEq, ast.Is, ast.IsNot, ast.Lt, ast.LtE, ast.Gt, ast.GtE)):
                return self.bool("arb_cmp")
        if isinstance(a, tuple) and isinstance(b, tuple) and isinstance(op, (ast.Eq, ast.NotEq)):
            if len(a) != len(b):
                return isinstance(op, ast.NotEq)
            r = True
            for x, y in zip(a, b):
                r = _and(r, self.compare(ast.Eq(), x, y))
            return r if isinstance(op, ast.Eq) else _not(r)
        if isinstance(op, (ast.Is, ast.IsNot)):
            r = models.identical(a, b)
            return r if isinstance(op, ast.Is) else _not(r)
        if isinstance(op, (ast.In, ast.NotIn)):
            r = models.contains(self, b, a)
            return r if isinstance(op, ast.In) else _not(r)
        if isinstance(a, KeyV) and isinstance(b, KeyV):
            if isinstance(op, ast.Eq):
                return a.t == b.t
            if isinstance(op, ast.NotEq):
                return a.t != b.t
        if isinstance(a, In) and isinstance(b, In):
            return _cmp(op, a.v, b.v)
        if isinstance(a, (Fl, In, int, float)) and isinstance(b, (Fl, In, int, float)) \
                and not isinstance(a, bool) and not isinstance(b, bool):
            a, b = lift_fl(a), lift_fl(b)
            ok = z3.simplify(z3.And(z3.Not(a.nan), z3.Not(b.nan)))
            if isinstance(op, ast.NotEq):
                return z3.Or(z3.Not(ok), a.v != b.v)
            return z3.And(ok, _cmp(op, a.v, b.v))
        if isinstance(a, (str, bool, type(None))) and isinstance(b, (str, bool, type(None))):
            if isinstance(op, ast.Eq):
                return a == b
            if isinstance(op, ast.NotEq):
                return a != b
        if (is_symbool(a) or isinstance(a, bool)) and (is_symbool(b) or isinstance(b, bool)):
            if isinstance(op, ast.Eq):
                return tobool(a) == tobool(b)
            if isinstance(op, ast.NotEq):
                return tobool(a) != tobool(b)
        return models.compare_value(self, op, a, b)

    def e_IfExp(self, e):
        c = self.truth(self.ev(e.test))
        return self.ev(e.body) if self.branch(c) else self.ev(e.orelse)

    def e_Tuple(self, e):
        return tuple(self.ev(x) for x in e.elts)

    def e_List(self, e):
        return [self.ev(x) for x in e.elts]

    def e_Dict(self, e):
        if e.keys:
            if all(isinstance(k, ast.Constant) and isinstance(k.value, str) for k in e.keys):
                for v in e.values:
                    self.ev(v)
                return Opaque("dict")          # a record-like dict with literal string keys (e.g. step's `info`)
            raise Unsupported("dict display with items")
        return self.new_map(lambda k: Fl(0), lambda k: FALSE, None, "dict")

    def e_Call(self, e):
        from . import models
        # "...".format(...) : message text, dropped
        if isinstance(e.func, ast.Attribute) and e.func.attr == "format" and \
                isinstance(e.func.value, (ast.Constant, ast.JoinedStr)):
            return Opaque("str")
        f = self.ev(e.func)
        args = []
        for a in e.args:
            if isinstance(a, ast.Starred):
                raise Unsupported("*args")
            args.append(self.ev(a))
        kwargs = {}
        for kw in e.keywords:
            if kw.arg is None:
                raise Unsupported("**kwargs")
            kwargs[kw.arg] = self.ev(kw.value)
        return self.call_value(f, args, kwargs)

    def call_value(self, f, args, kwargs):
        from . import models
        if isinstance(f, BoundMethod):
            r = f.recv
            if isinstance(r, tuple) and r and r[0] == "model":
                return r[1](self, [r[2]] + list(args), kwargs)       # trusted model of a library method (A3/A4)
            if isinstance(r, Obj) and r.kind == "rec" or isinstance(r, RowRef):
                return self.call_repo(r.cls, f.name, r, args, kwargs)
            return models.call_method(self, r, f.name, args, kwargs)
        if isinstance(f, ClassRef):
            return models.construct(self, f.name, args, kwargs)
        if isinstance(f, Obj) and f.kind == "rec" and resolve_method(f.cls, "__call__"):
            return self.call_repo(f.cls, "__call__", f, args, kwargs)
        if hasattr(f, "py_call"):
            return f.py_call(self, args, kwargs)
        if isinstance(f, Builtin):
            return models.call_builtin(self, f.name, args, kwargs)
        raise Unsupported("call of %r" % (f,))

    def e_DictComp(self, e):
        from . import loops
        return loops.dict_comprehension(self, e)

    def e_SetComp(self, e):
        # {k for ... if cond}: the set is the domain of the dict comprehension {k: True for ... if cond}
        from . import loops
        d = ast.copy_location(ast.DictComp(key=e.elt, value=ast.copy_location(ast.Constant(True), e), generators=e.generators), e)
        m = loops.dict_comprehension(self, ast.fix_missing_locations(d))
        self.heap[m.oid]["pyset"] = True
        return m

    def e_ListComp(self, e):
        from . import loops
        return loops.list_comprehension(self, e)

    def e_GeneratorExp(self, e):
        from . import loops
        return loops.list_comprehension(self, e)

    # ---------------------------------------------------------------- truthiness
    def truth(self, v):
        if isinstance(v, bool):
            return v
        if is_symbool(v):
            return v
        if v is None:
            return False
        if isinstance(v, In):
            return v.v != 0
        if isinstance(v, Tm):
            return True
        if isinstance(v, Fl):
            return z3.Or(v.nan, v.v != 0)
        if isinstance(v, str):
            return len(v) > 0
        if isinstance(v, Obj):
            if v.kind == "seq":
                return self.heap[v.oid]["len"] != 0
            if v.kind == "rec":
                return True
        if isinstance(v, (list, tuple)):
            return len(v) > 0
        if isinstance(v, (KeyV, Opaque, RowRef)):
            return True
        if isinstance(v, Arb):
            return self.bool("arb_truth")
        raise Unsupported("truth value of %r" % (v,))


def _as_load(t):
    if isinstance(t, ast.Name):
        return ast.Name(t.id, ast.Load())
    if isinstance(t, ast.Attribute):
        return ast.Attribute(t.value, t.attr, ast.Load())
    if isinstance(t, ast.Subscript):
        return ast.Subscript(t.value, t.slice, ast.Load())
    raise Unsupported("augmented target")


def _not(c):
    if isinstance(c, bool):
        return not c
    return z3.Not(c)


def _and(a, b):
    if isinstance(a, bool):
        return b if a else False
    if isinstance(b, bool):
        return a if b else False
    return z3.And(a, b)


def _or(a, b):
    if isinstance(a, bool):
        return True if a else b
    if isinstance(b, bool):
        return True if b else a
    return z3.Or(a, b)


def _cmp(op, a, b):
    if isinstance(op, ast.Lt):
        return a < b
    if isinstance(op, ast.LtE):
        return a <= b
    if isinstance(op, ast.Gt):
        return a > b
    if isinstance(op, ast.GtE):
        return a >= b
    if isinstance(op, ast.Eq):
        return a == b
    if isinstance(op, ast.NotEq):
        return a != b
    raise Unsupported("comparison %s" % type(op).__name__)


TRUNCATED = []


# ------------------------------------------------------------------------------ path exploration
def explore(run, registry, opts=None, max_paths=4000, initial=None):
    """run(I) -> outcome. Enumerates all feasible paths. Returns list of (I, outcome).
    initial: a decision prefix (a shard of the top-level case split); only paths extending it are explored."""
    results = []
    stack = [list(initial or [])]
    from .solve import over_budget
    while stack:
        if over_budget() and results:
            TRUNCATED.append(len(stack))          # unexplored alternatives: reported as undecided, never as held
            break
        prefix = stack.pop()
        I = Interp(prefix, registry, opts)
        try:
            out = run(I)
        except PathEnd as p:
            out = ("end", p.reason)
        npre = len(prefix)
        if initial:
            # a shard prefix enumerates binary decisions only: anything else would silently drop alternatives
            for n in I.consumed_nalts[:len(initial)]:
                if n != 2:
                    raise Unsupported("shard prefix does not match the decision structure of the function")
        for j in range(npre, len(I.dec)):
            if I.forkable[j]:
                for alt in I.nalts[j]:
                    stack.append(I.dec[:j] + [alt])
        results.append((I, out))
        if len(results) > max_paths:
            raise Unsupported("path explosion (> %d paths)" % max_paths)
    return results
