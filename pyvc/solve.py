"""Discharging obligations (DESIGN §4.7).

Primary back end: z3 5.1 through its python API, on the incremental path solver.  `unknown` goes to a
fresh (non-incremental) z3 solver, then to the cvc5 and z3-4.8 command-line solvers through SMT-LIB.
`unknown` is never mapped to a violation.  In the thorough tier every obligation is exported and
re-checked by all back ends.
"""
import os, subprocess, tempfile, time, z3
from fractions import Fraction

THOROUGH = False
DEADLINE = [None]        # wall-clock budget of the current verification job (one function / shard)


def over_budget():
    return DEADLINE[0] is not None and time.time() > DEADLINE[0]
STATS = {"z3py": 0, "z3py_fresh": 0, "cvc5": 0, "z3-4.8": 0, "solver_s": 0.0, "cross_checked": 0,
         "cross_disagree": 0}
CROSS = []      # (name, {backend: verdict}) in the thorough tier
CROSS_SEEN = set()


def cross_once(name):
    """thorough tier: every distinct obligation (by name) is re-checked on the other back ends once per job"""
    if name in CROSS_SEEN:
        return False
    CROSS_SEEN.add(name)
    return True


def _v(r):
    return "sat" if r == z3.sat else ("unsat" if r == z3.unsat else "unknown")


def _val(m, t):
    v = m.eval(t, model_completion=True)
    if z3.is_rational_value(v):
        return Fraction(v.numerator_as_long(), v.denominator_as_long())
    if z3.is_algebraic_value(v):
        a = v.approx(20)
        return Fraction(a.numerator_as_long(), a.denominator_as_long())
    if z3.is_int_value(v):
        return v.as_long()
    if z3.is_true(v):
        return True
    if z3.is_false(v):
        return False
    return str(v)


def extract_model(I, m):
    out = {}
    for name, t in I.witness.items():
        try:
            out[name] = _val(m, t)
        except Exception as ex:      # pragma: no cover
            out[name] = "?(%s)" % ex
    return out


def smt2_of(assertions, goal_neg):
    s = z3.Solver()
    s.add(*assertions)
    s.add(goal_neg)
    return s.to_smt2()


def run_cli(cmd, smt2, timeout):
    with tempfile.NamedTemporaryFile("w", suffix=".smt2", delete=False, dir=os.environ.get("TMPDIR", "/tmp")) as f:
        f.write(smt2)
        path = f.name
    try:
        t0 = time.time()
        p = subprocess.run(cmd + [path], capture_output=True, text=True, timeout=timeout + 5)
        out = (p.stdout or "").strip().splitlines()
        v = out[0].strip() if out else "unknown"
        if v not in ("sat", "unsat", "unknown"):
            v = "unknown"
        return v, time.time() - t0
    except subprocess.TimeoutExpired:
        return "unknown", timeout
    finally:
        os.unlink(path)


def cvc5_cli(smt2, timeout=30):
    smt2 = smt2.replace("(set-info :status unknown)", "")
    return run_cli(["/usr/bin/cvc5", "--tlimit=%d" % (timeout * 1000), "--nl-ext-tplanes", "--nl-cov"], smt2, timeout)


def z3old_cli(smt2, timeout=60):
    return run_cli(["/usr/bin/z3", "-T:%d" % timeout], smt2, timeout)


def discharge(I, name, goal, kind="vc", detail=""):
    from .engine import Obligation
    t0 = time.time()
    if isinstance(goal, bool):
        goal = z3.BoolVal(goal)
    if over_budget() and not z3.is_true(goal) and not z3.is_false(goal):
        STATS["budget_skipped"] = STATS.get("budget_skipped", 0) + 1
        return Obligation(name, "unknown", "none(time budget of the job exhausted)", 0, path=list(I.dec), detail=detail, kind=kind)
    neg = z3.Not(goal)
    # tier 1: non-linear arithmetic abstracted to uninterpreted functions (sound for `unsat`)
    ra = I.asolver.check(I.abs.ab(neg))
    if ra == z3.unsat:
        dt = time.time() - t0
        STATS["solver_s"] += dt
        STATS["abstract"] = STATS.get("abstract", 0) + 1
        ob = Obligation(name, "unsat", "z3-5.1(py,UF-abstracted arithmetic)", int(dt * 1000), path=list(I.dec),
                        detail=detail, kind=kind)
        if THOROUGH and kind != "cover" and cross_once(name):
            s = I.solver
            smt2 = smt2_of(list(s.assertions()), neg)
            v1, _ = cvc5_cli(smt2, 30)
            v2, _ = z3old_cli(smt2, 30)
            STATS["cross_checked"] += 1
            for v in (v1, v2):
                if v == "sat":
                    STATS["cross_disagree"] += 1
            CROSS.append((name, {"z3-5.1(abstracted)": "unsat", "cvc5-1.0.3": v1, "z3-4.8.12": v2}))
        return ob
    s = I.solver
    s.push()
    s.add(neg)
    if kind == "control":
        s.set("timeout", 3000)
    r = s.check()
    if kind == "control":
        from .engine import SOLVER_TIMEOUT_MS
        s.set("timeout", SOLVER_TIMEOUT_MS)
    model = None
    backend = "z3-5.1(py,incremental)"
    if r == z3.sat:
        model = extract_model(I, s.model())
    assertions = list(s.assertions())
    s.pop()
    STATS["z3py"] += 1
    smt2 = None
    if r == z3.unknown and kind != "control":
        f = z3.Solver()
        f.set("timeout", 20000)
        f.add(*assertions)
        r = f.check()
        backend = "z3-5.1(py,fresh)"
        STATS["z3py_fresh"] += 1
        if r == z3.sat:
            model = extract_model(I, f.model())
    verdict = _v(r)
    if verdict == "unknown" and kind != "control":
        smt2 = smt2_of(assertions[:-1], neg)
        v, _ = cvc5_cli(smt2, 30)
        STATS["cvc5"] += 1
        backend = "cvc5-1.0.3(cli)"
        verdict = v
        if verdict == "unknown":
            v, _ = z3old_cli(smt2, 60)
            STATS["z3-4.8"] += 1
            backend = "z3-4.8.12(cli)"
            verdict = v
    if THOROUGH and verdict in ("sat", "unsat") and kind not in ("cover", "control") and cross_once(name):
        smt2 = smt2 or smt2_of(assertions[:-1], neg)
        others = {}
        v1, _ = cvc5_cli(smt2, 30)
        others["cvc5-1.0.3"] = v1
        v2, _ = z3old_cli(smt2, 30)
        others["z3-4.8.12"] = v2
        STATS["cross_checked"] += 1
        for b, v in others.items():
            if v in ("sat", "unsat") and v != verdict:
                STATS["cross_disagree"] += 1
        CROSS.append((name, dict(others, **{"z3-5.1": verdict})))
    dt = time.time() - t0
    STATS["solver_s"] += dt
    return Obligation(name, verdict, backend, int(dt * 1000), model=model, path=list(I.dec), detail=detail, kind=kind)


def cover(I, name, extra=None):
    """vacuity guard: the current path condition (plus extra) must be satisfiable"""
    from .engine import Obligation
    t0 = time.time()
    s = I.solver
    if extra is not None:
        r = s.check(extra)
    else:
        r = s.check()
    dt = time.time() - t0
    STATS["solver_s"] += dt
    return Obligation(name, _v(r), "z3-5.1(py,incremental)",
                      int(dt * 1000), kind="cover")
