"""Runs one property: kernel obligations (deductive), property lemmas, bounded shell; writes evidence."""
import os, sys, json, time, re, importlib, traceback, hashlib, multiprocessing
from fractions import Fraction

HERE = os.path.dirname(os.path.dirname(os.path.abspath(__file__)))
EVID = os.environ.get("VERIF_EVIDENCE_DIR") or os.path.join(HERE, "evidence")
REPLAYS = os.environ.get("VERIF_REPLAY_DIR") or os.path.join(HERE, "replays")

STANDING_ASSUMPTIONS = {
    "A1": "machine arithmetic treated as mathematical: floats are reals with an explicit NaN flag (no rounding, overflow, inf); ints unbounded",
    "A2": "the engine's semantics of the Python subset (pyvc/engine.py, models.py, loops.py) is ours and unverified; mitigated by the CPython cross-check and seeded-change runs, not proved",
    "A3": "trusted models of builtins/numpy/containers (abs, sum, isinstance, np.isnan, np.sign, dict/defaultdict/deque, bisect, datetime arithmetic, real-exponent ** via instantiated axioms)",
    "A5": "pandas, scikit-learn, pandas_market_calendars, gymnasium internals are never entered by the verifier (bounded shell only)",
    "A6": "soundness of z3 5.1 / cvc5 1.0.3 / z3 4.8.12 (and Lean 4 kernel for the sum lemmas)",
    "A7": "dict iteration order is irrelevant to results that are sums / pointwise maps over the reals",
    "A8": "no aliasing between distinct records; one Broker per Exchange; contract identity = key identity",
    "A9": "contract objects are immutable and obey the spec regime stated in `requires` (spot-like or margined, multiplier > 0); IBrokerFees is BrokerFees",
    "A10": "meta-level steps argued, not machine-checked: induction over a finite history from `invariant established + preserved by every operation`; application of the Lean-proved finite-sum lemmas to the pointwise queries",
    "A11": "single-threaded execution",
}


def jsonable(x):
    if isinstance(x, Fraction):
        return float(x) if x.denominator != 1 else int(x)
    if isinstance(x, dict):
        return {str(k): jsonable(v) for k, v in x.items()}
    if isinstance(x, (list, tuple, set)):
        return [jsonable(v) for v in x]
    if isinstance(x, (int, float, str, bool)) or x is None:
        return x
    return str(x)


def frac_model(m):
    if m is None:
        return None
    out = {}
    for k, v in m.items():
        if isinstance(v, Fraction):
            out[k] = "%d/%d" % (v.numerator, v.denominator)
        else:
            out[k] = v
    return out


def verify_one(args):
    qual, thorough, initial = args
    try:
        from contracts import load_all
        from pyvc import contract as C, solve, front
        solve.THOROUGH = thorough
        budget = float(os.environ.get("VERIF_JOB_BUDGET_S", "1500" if thorough else "360"))
        solve.DEADLINE[0] = time.time() + budget
        reg = load_all()
        con = reg[qual]
        con = getattr(con, "concrete", con)       # a function whose call-site contract is an abstraction is verified against its concrete contract
        if qual.startswith("body:"):
            res = C.verify_body(con, reg, initial=initial)
        else:
            res = C.verify(con, reg, initial=initial)
        from pyvc import engine as _eng
        obls = []
        if _eng.TRUNCATED:
            obls.append({"name": "%s::exploration_complete" % qual, "verdict": "unknown", "backend": "none(time budget of the job exhausted)",
                         "ms": 0, "kind": "vc", "detail": "%d path alternatives left unexplored" % sum(_eng.TRUNCATED), "model": None,
                         "path": [], "known_ids": []})
        for o in res.obls:
            obls.append({"name": o.name, "verdict": o.verdict, "backend": o.backend, "ms": o.ms, "kind": o.kind,
                         "detail": o.detail, "model": frac_model(o.model), "path": o.path,
                         "known_ids": list(getattr(o, "known_ids", []) or [])})
        return {"qual": qual, "shard": initial, "relpath": con.relpath, "ast_hash": res.ast_hash, "paths": res.paths,
                "feasible": res.feasible_paths, "outcomes": res.outcomes, "wall": res.wall,
                "inlined": sorted(res.inlined), "assumed": sorted(res.assumed), "notes": sorted(res.notes), "callees": sorted(getattr(res, "callees", [])),
                "obligations": obls, "error": None,
                "solver_s": solve.STATS["solver_s"], "cross": solve.CROSS, "stats": dict(solve.STATS)}
    except Exception as ex:
        kind = type(ex).__name__
        return {"qual": qual, "shard": initial, "error": "%s: %s" % (kind, ex), "error_kind": kind,
                "trace": traceback.format_exc(), "obligations": [], "wall": 0, "paths": 0, "feasible": 0,
                "outcomes": {}, "inlined": [], "relpath": "", "ast_hash": "", "solver_s": 0, "cross": [], "stats": {}}


def merge_shards(rs, quals):
    out = {}
    for r in rs:
        q = r["qual"]
        if q not in out:
            out[q] = dict(r)
            out[q]["outcomes"] = dict(r["outcomes"])
            out[q]["obligations"] = list(r["obligations"])
            out[q]["inlined"] = list(r["inlined"])
            out[q]["cross"] = list(r.get("cross", []))
            continue
        m = out[q]
        if r["error"] and not m["error"]:
            m["error"], m["error_kind"], m["trace"] = r["error"], r.get("error_kind"), r.get("trace")
        m["paths"] += r["paths"]
        m["feasible"] += r["feasible"]
        m["wall"] = max(m["wall"], r["wall"])
        m["solver_s"] += r.get("solver_s", 0)
        for k, v in r["outcomes"].items():
            m["outcomes"][k] = m["outcomes"].get(k, 0) + v
        m["obligations"] += r["obligations"]
        m["inlined"] = sorted(set(m["inlined"]) | set(r["inlined"]))
        m["assumed"] = sorted(set(m.get("assumed", [])) | set(r.get("assumed", [])))
        m["notes"] = sorted(set(m.get("notes", [])) | set(r.get("notes", [])))
        m["callees"] = sorted(set(m.get("callees", [])) | set(r.get("callees", [])))
        m["cross"] += r.get("cross", [])
    return [out[q] for q in quals if q in out]


def load_known():
    p = os.path.join(HERE, "known_findings.json")
    with open(p) as f:
        return json.load(f)


def safe(s):
    return re.sub(r"[^A-Za-z0-9_.-]+", "_", s)[:120]


class Report:
    def __init__(self, pid, tier, seed):
        self.pid, self.tier, self.seed = pid, tier, seed
        self.violations = []      # (what, replay_path, witnessed)
        self.known_lines = []
        self.undecided = []
        self.broken = []
        self.lines = []

    def violation(self, obligation, payload, reproduced):
        os.makedirs(REPLAYS, exist_ok=True)
        path = os.path.join(REPLAYS, "%s_%s.json" % (self.pid, safe(obligation)))
        payload = dict(payload)
        payload.update({"property": self.pid, "obligation": obligation, "reproduced_on_real_code": bool(reproduced),
                        "tree": os.environ.get("VERIF_REPO", "/repo")})
        with open(path, "w") as f:
            json.dump(jsonable(payload), f, indent=1)
        rel = os.path.relpath(path, HERE)
        line = "VIOLATION property=%s replay=%s" % (self.pid, rel)
        if not reproduced:
            line += " no-failing-input-found"
        self.violations.append((obligation, rel, reproduced))
        print("  failed obligation: %s" % obligation)
        print(line)
        sys.stdout.flush()


def run_property(pid, tier):
    t0 = time.time()
    seed = int(os.environ.get("VERIF_SEED", "0") or 0)
    thorough = tier == "thorough"
    sys.path.insert(0, HERE)
    prop = importlib.import_module("props." + pid)
    known = load_known()
    rep = Report(pid, tier, seed)
    print("== %s (%s tier, seed %d) on %s" % (pid, tier, seed, os.environ.get("VERIF_REPO", "/repo")))

    # ------------------------------------------------------------------ 1. deductive kernel
    quals = list(getattr(prop, "FUNCTIONS", []))
    results = []
    if quals:
        from contracts import load_all
        reg0 = load_all()
        # Verification is modular: a caller is checked against its callees' contracts, so every contract applied at a call site must
        # itself be verified against its body in the same run (unless it is an ASSUMED summary, listed as such). The set is closed
        # dynamically: round k verifies what round k-1 was seen to call. `closure_hints.json` (committed, produced by
        # tools/mkclosure.py) only moves later rounds into the first one; it never removes anything.
        def verifiable(q):
            c = reg0.get(q)
            return c is not None and hasattr(c, "pre_state") and not q.startswith(("loop:", "builtin:", "method:", "construct:", "seqmethod:", "body:")) \
                and (not getattr(c, "assumed", False) or getattr(c, "concrete", None) is not None)
        hints = []
        try:
            with open(os.path.join(HERE, "closure_hints.json")) as f:
                hints = [q for q in json.load(f).get(pid, []) if verifiable(q)]
        except Exception:
            hints = []
        declared = list(quals)
        pending = list(quals) + [q for q in hints if q not in quals]
        quals = []
        shard_results = []
        ctx = multiprocessing.get_context("fork")
        rounds = 0
        while pending:
            rounds += 1
            jobs = []
            for q in pending:
                sh = getattr(getattr(reg0[q], "concrete", reg0[q]), "shards", None) or getattr(reg0[q], "shards", None)
                for pre in (sh or [None]):
                    jobs.append((q, thorough, pre))
            # longest first
            jobs.sort(key=lambda j: 0 if j[2] is not None else 1)
            nproc = min(len(jobs), int(os.environ.get("VERIF_JOBS", "16")))
            with ctx.Pool(nproc) as pool:
                got = pool.map(verify_one, jobs, chunksize=1)
            shard_results += got
            quals += pending
            called = set()
            for r in got:
                called |= set(r.get("callees", []))
            pending = sorted(q for q in called if q not in quals and verifiable(q))
        # a solver `unknown` under load is retried once with the machine to itself (few jobs at a time): `unknown` decides nothing,
        # and a verdict must not depend on how busy the 16 cores were while the first attempt ran
        ctl = {}
        for r in shard_results:
            for o in r.get("obligations", []):
                if o["kind"] == "control":
                    ctl.setdefault(o["name"], []).append(o["verdict"])
        starved = set(n for n, vs in ctl.items() if "sat" not in vs and any(v not in ("sat", "unsat") for v in vs))   # refutation timed out everywhere
        flaky = [i for i, r in enumerate(shard_results)
                 if not r.get("error") and any(o["verdict"] not in ("unsat", "sat", "known") and (o["kind"] not in ("control", "cover") or o["name"] in starved)
                                               for o in r.get("obligations", []))]
        if flaky and not os.environ.get("VERIF_NO_RETRY"):
            jobs = [(shard_results[i]["qual"], thorough, shard_results[i]["shard"]) for i in flaky]
            with ctx.Pool(min(len(jobs), 4)) as pool:
                again = pool.map(verify_one, jobs, chunksize=1)
            for i, r in zip(flaky, again):
                und = lambda rr: sum(1 for o in rr.get("obligations", []) if o["verdict"] not in ("unsat", "sat", "known") and (o["kind"] not in ("control", "cover") or o["name"] in starved))
                n0 = und(shard_results[i])
                n1 = und(r) if not r.get("error") else n0 + 1
                if n1 < n0:
                    r.setdefault("notes", []).append("retried once after solver unknown under load (%d -> %d undecided obligations)" % (n0, n1))
                    shard_results[i] = r
        results = merge_shards(shard_results, quals)
        closure_added = [q for q in quals if q not in declared]
        if os.environ.get("VERIF_WRITE_HINTS"):
            with open(os.environ["VERIF_WRITE_HINTS"], "a") as f:
                f.write(json.dumps({pid: closure_added}) + "\n")
    select = getattr(prop, "select", None)
    all_obls = []
    functions = []
    for r in results:
        functions.append({"qualname": r["qual"], "file": r["relpath"], "ast_hash": r["ast_hash"], "paths": r["paths"],
                          "feasible_paths": r["feasible"], "outcomes": r["outcomes"], "wall_s": round(r["wall"], 2),
                          "inlined_callees": r["inlined"], "assumed_callee_contracts": r.get("assumed", [])})
        if r["error"]:
            if r.get("error_kind") in ("Unsupported", "BindingError"):
                rep.undecided.append("%s: %s" % (r["qual"], r["error"]))
            else:
                rep.broken.append("%s: %s\n%s" % (r["qual"], r["error"], r.get("trace", "")))
            continue
        if r["feasible"] == 0:
            rep.broken.append("%s: no feasible path under `requires` (vacuous contract)" % r["qual"])
        for o in r["obligations"]:
            if select is None or select(o["name"]):
                o["function"] = r["qual"]
                all_obls.append(o)

    # ------------------------------------------------------------------ 2. property-level lemmas
    lemma_fns = list(getattr(prop, "LEMMAS", []))
    for lf in lemma_fns:
        try:
            for o in lf(tier):
                o.setdefault("function", "<lemma>")
                o.setdefault("kind", "lemma")
                o.setdefault("path", [])
                o.setdefault("known_ids", [])
                o.setdefault("model", None)
                o.setdefault("detail", "")
                all_obls.append(o)
        except Exception as ex:
            if type(ex).__name__ in ("Unsupported", "BindingError"):
                rep.undecided.append("lemma %s: %s" % (lf.__name__, ex))
            else:
                rep.broken.append("lemma %s: %s\n%s" % (lf.__name__, ex, traceback.format_exc()))

    # ------------------------------------------------------------------ classify
    vcs = [o for o in all_obls if o["kind"] not in ("control", "cover")]
    controls = [o for o in all_obls if o["kind"] == "control"]
    discharged = [o for o in vcs if o["verdict"] == "unsat"]
    knowns = [o for o in vcs if o["verdict"] == "known"]
    sats = [o for o in vcs if o["verdict"] == "sat"]
    unknowns = [o for o in vcs if o["verdict"] not in ("unsat", "sat", "known")]
    if not vcs and quals:
        rep.broken.append("zero obligations generated")
    # perturbed postconditions must be refuted somewhere
    by = {}
    for o in controls:
        by.setdefault(o["name"], []).append(o["verdict"])
    control_report = {}
    for n, vs in by.items():
        control_report[n] = "refuted" if "sat" in vs else "NOT refuted"
        if "sat" not in vs:
            rep.broken.append("perturbed postcondition %s was not refuted: the VC is vacuous" % n)
    # known findings
    known_ids = {}
    for e in known.get("findings", []):
        known_ids[e["id"]] = e
    hit = {}
    for o in knowns:
        ok = True
        for fid in o["known_ids"]:
            e = known_ids.get(fid)
            if e is None or e.get("status") != "known" or not any(o["name"].startswith(p) or p in o["name"] for p in e.get("obligations", [])):
                ok = False
            else:
                hit.setdefault(fid, e)
        if not ok or not o["known_ids"]:
            sats.append(o)
    for fid, e in hit.items():
        line = "KNOWN-FINDING: property=%s %s %s" % (pid, fid, e["what"])
        rep.known_lines.append(line)
        print(line)
    # violations from the kernel
    replayers = getattr(prop, "REPLAYERS", [])
    seen = {}
    for o in sats:
        seen.setdefault(o["name"], []).append(o)
    followups = getattr(prop, "FOLLOW_ON", {})
    for name, obs in seen.items():
        # a clause that only fails because a lemma it rests on failed on the same path is reported once, under the lemma
        root = None
        for pat, parent in followups.items():
            if pat in name and any(parent in n for n in seen):
                root = parent
        if root:
            continue
        reproduced, payload = False, None
        for pat, fn in replayers:
            if pat in name:
                for o in obs[:5]:
                    try:
                        out = fn(o)
                    except Exception as ex:
                        out = {"reproduced": False, "error": "%s: %s" % (type(ex).__name__, ex), "trace": traceback.format_exc()}
                    payload = {"kind": getattr(fn, "kind", fn.__name__), "model": o["model"], "path": o["path"],
                               "solver": {"verdict": o["verdict"], "backend": o["backend"], "ms": o["ms"], "detail": o["detail"]},
                               "replay": out}
                    if out.get("reproduced"):
                        reproduced = True
                        break
                break
        if payload is None:
            o = obs[0]
            payload = {"kind": "none", "model": o["model"], "path": o["path"],
                       "solver": {"verdict": o["verdict"], "backend": o["backend"], "ms": o["ms"], "detail": o["detail"]},
                       "replay": {"reproduced": False, "reason": "no replay constructor for this obligation"}}
        rep.violation(name, payload, reproduced)
    for o in unknowns:
        rep.undecided.append("%s: solver verdict %s (%s)" % (o["name"], o["verdict"], o["backend"]))

    # ------------------------------------------------------------------ 3. bounded shell
    shell_cov = []
    for sf in getattr(prop, "SHELL", []):
        try:
            out = sf(tier, seed)
        except Exception as ex:
            rep.broken.append("shell %s: %s\n%s" % (sf.__name__, ex, traceback.format_exc()))
            continue
        fails = out.pop("failures", [])
        kf = out.pop("known_failures", [])
        for fid, what in kf:
            e = known_ids.get(fid)
            if e is None or e.get("status") != "known":
                fails.append({"name": "%s::known_finding_not_listed[%s]" % (sf.__name__, fid), "input": what})
            elif fid not in hit:
                hit[fid] = e
                line = "KNOWN-FINDING: property=%s %s %s" % (pid, fid, e["what"])
                rep.known_lines.append(line)
                print(line)
        shell_cov.append(out)
        done = set()
        for f in fails:
            nm = f.get("name", sf.__name__)
            if nm in done:
                continue
            done.add(nm)
            rep.violation("shell::" + nm, {"kind": f.get("kind", "shell"), "input": f.get("input"), "detail": f.get("detail"),
                                           "replay": {"reproduced": True, "how": "failing input observed on the real code by the bounded shell"}}, True)

    # ------------------------------------------------------------------ 4. evidence
    wall = time.time() - t0
    solver_s = sum(r.get("solver_s", 0) for r in results)
    per_obl = {}
    for o in vcs:
        e = per_obl.setdefault(o["name"], {"name": o["name"], "queries": 0, "verdicts": {}, "backends": {}, "ms": 0})
        e["queries"] += 1
        e["verdicts"][o["verdict"]] = e["verdicts"].get(o["verdict"], 0) + 1
        e["backends"][o["backend"]] = e["backends"].get(o["backend"], 0) + 1
        e["ms"] += o["ms"]
    samples = []
    for o in (sats[:2] + knowns[:1] + discharged[:3]):
        samples.append({"obligation": o["name"], "function": o.get("function"), "verdict": o["verdict"],
                        "backend": o["backend"], "ms": o["ms"], "path_decisions": o["path"], "detail": o["detail"],
                        "model": o["model"]})
    for n, v in list(control_report.items())[:2]:
        samples.append({"perturbed_postcondition": n, "verdict": v})
    level = getattr(prop, "LEVEL", "other")
    assumptions = [k + ": " + v for k, v in STANDING_ASSUMPTIONS.items() if k in getattr(prop, "ASSUMES", STANDING_ASSUMPTIONS.keys())]
    assumptions += list(getattr(prop, "EXTRA_ASSUMPTIONS", []))
    for nt in sorted(set(x for r in results for x in r.get("notes", []))):
        assumptions.append(nt)
    used = sorted(set(a for r in results for a in r.get("assumed", [])))
    if used:
        assumptions.append("ASSUMED callee contracts applied at call sites in this run (bodies not verified): " + ", ".join(used))
    assumptions += scan_assumptions(prop)
    cross = []
    for r in results:
        cross.extend(r.get("cross", []))
    cov = {
        "obligations": len(vcs),
        "discharged": len(discharged) + len([o for o in knowns if o not in sats]),
        "distinct_obligation_names": len(per_obl),
        "checker_cmd": "./vcheck %s --tier %s" % (pid, tier),
        "trusted_base": ["pyvc symbolic executor (own, unverified)", "z3 5.1 (python API)", "cvc5 1.0.3 / z3 4.8.12 (fallback and thorough cross-check)",
                         "trusted models of builtins (pyvc/models.py)", "lean/SumLemmas.lean (finite-sum lemmas, checked by Lean in the thorough tier)"],
        "explanation": getattr(prop, "EXPLANATION", ""),
        "functions_under_contract": functions,
        "per_obligation": sorted(per_obl.values(), key=lambda e: e["name"]),
        "solver_time_s": round(solver_s, 2),
        "back_ends": back_end_summary(vcs),
        "perturbed_postconditions": control_report,
        "known_findings_hit": sorted(hit),
        "not_decided_deductively": list(getattr(prop, "NOT_DEDUCTIVE", [])),
        "undecided": rep.undecided,
        "samples": samples,
        "bounded": shell_cov,
        "cross_check": {"obligations_rechecked": len(cross),
                        "disagreements": [c for c in cross if len(set(v for v in c[1].values() if v in ("sat", "unsat"))) > 1]},
    }
    if shell_cov:
        cov["evaluations"] = sum(s.get("evaluations", 0) for s in shell_cov)
        cov["distinct_nontrivial"] = sum(s.get("distinct_nontrivial", 0) for s in shell_cov)
        cov["rule"] = " | ".join(s.get("rule", "") for s in shell_cov)
        cov["traces_validated_against_impl"] = sum(s.get("traces_validated_against_impl", 0) for s in shell_cov)
    if thorough:
        cov["lean"] = lean_check() if getattr(prop, "USES_SUM_LEMMAS", False) or any("lemma sum_" in (o.get("detail") or "") for o in vcs) else \
            {"checked": False, "reason": "no finite-sum lemma is applied for this property"}
        if cov["lean"].get("checked") and not cov["lean"].get("ok"):
            rep.broken.append("lean/SumLemmas.lean does not check: %s" % cov["lean"].get("output", "")[:300])
        cov["mutants"] = run_mutants(pid)
    else:
        cov["lean"] = {"checked": False, "reason": "quick tier: lean/SumLemmas.lean is an assumption here (checked in the thorough tier)"}
    extra = getattr(prop, "extra_coverage", None)
    if extra:
        cov.update(extra(tier))
    ev = {"property_id": pid, "tier": tier, "seed": seed, "level": level, "coverage": cov,
          "assumptions": assumptions, "wall_s": round(wall, 2), "violations": len(rep.violations)}
    os.makedirs(EVID, exist_ok=True)
    with open(os.path.join(EVID, pid + ".json"), "w") as f:
        json.dump(jsonable(ev), f, indent=1)
    # ------------------------------------------------------------------ verdict
    print("   functions=%d obligations=%d discharged=%d known=%d violated=%d undecided=%d shell_runs=%d wall=%.1fs" % (
        len(functions), len(vcs), cov["discharged"], len(hit), len(rep.violations), len(rep.undecided),
        sum(s.get("evaluations", 0) for s in shell_cov), wall))
    if rep.broken:
        for b in rep.broken:
            print("CHECKER-BROKEN: " + b)
        return 3
    if rep.violations:
        return 1
    if rep.undecided:
        for u in rep.undecided:
            print("UNDECIDED: " + u)
        return 2
    print("OK %s" % pid)
    return 0


def lean_check():
    import subprocess, shutil
    if shutil.which("lean") is None:
        return {"checked": False, "reason": "lean not on PATH"}
    t0 = time.time()
    try:
        p = subprocess.run(["lean", os.path.join(HERE, "lean", "SumLemmas.lean")], capture_output=True, text=True, timeout=600)
    except subprocess.TimeoutExpired:
        return {"checked": True, "ok": False, "output": "timeout"}
    out = (p.stdout + p.stderr)
    ok = p.returncode == 0 and "error" not in out and "sorry" not in out
    return {"checked": True, "ok": ok, "wall_s": round(time.time() - t0, 1), "theorems": ["sum_congr_on", "sum_zero_on", "sum_update_fin", "sum_update_one",
                                                                                      "sum_support_irrelevant", "sum_insert_new"],
            "output": out[-400:] if not ok else ""}


def run_mutants(pid):
    """thorough tier: every kept seeded change of this property, applied to a scratch copy outside /repo and /verif, must be reported"""
    import importlib.util
    spec = importlib.util.spec_from_file_location("seed_matrix", os.path.join(HERE, "tools", "seed_matrix.py"))
    sm = importlib.util.module_from_spec(spec)
    spec.loader.exec_module(sm)
    sdir = os.path.join(HERE, "seeded")
    seeds = sorted(d for d in os.listdir(sdir) if d.startswith(pid + "_") and os.path.isfile(os.path.join(sdir, d, "patch.diff")))
    if os.environ.get("VERIF_NO_MUTANTS") or os.environ.get("VERIF_REPO", "/repo") != "/repo":
        return {"applied": 0, "killed": 0, "survivors": [], "note": "skipped (nested run)"}
    killed, surv, detail = 0, [], {}
    os.environ.setdefault("SEED_INNER_JOBS", "16")        # the seeds of one property run one after the other: each may use every core
    for sid in seeds:
        _, r = sm.run_one(sid)
        detail[sid] = {"exit": r.get("exit"), "failed_obligations": r.get("failed_obligations", [])[:3], "error": r.get("error")}
        if r.get("exit") == 1:
            killed += 1
        else:
            surv.append(sid)
    return {"applied": len(seeds), "killed": killed, "survivors": surv, "detail": detail}


def back_end_summary(vcs):
    out = {}
    for o in vcs:
        out[o["backend"]] = out.get(o["backend"], 0) + 1
    return out


def scan_assumptions(prop):
    """mechanical scan of the contract/prop sources for assume/trusted/axiom markers"""
    out = []
    files = [prop.__file__]
    cdir = os.path.join(HERE, "contracts")
    files += [os.path.join(cdir, f) for f in sorted(os.listdir(cdir)) if f.endswith(".py")]
    pat = re.compile(r"\b(TRUSTED|ASSUMED|AXIOM)\b[: ](.*)")
    for p in files:
        try:
            for i, line in enumerate(open(p), 1):
                m = pat.search(line)
                if m:
                    out.append("%s:%d %s %s" % (os.path.relpath(p, HERE), i, m.group(1), m.group(2).strip()))
        except OSError:
            pass
    return out
