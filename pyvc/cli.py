"""vcheck command line: ./vcheck Cxx [--tier quick|thorough] | ./vcheck replay <file> | ./vcheck all"""
import sys, os, json, time, importlib, traceback


def main(argv):
    if not argv:
        print(__doc__)
        return 3
    if argv[0] == "replay":
        from . import replay
        return replay.replay_file(argv[1])
    tier = os.environ.get("VERIF_TIER") or "quick"
    if "--tier" in argv:
        tier = argv[argv.index("--tier") + 1]
    pid = argv[0]
    from . import runner
    if pid == "all":
        rc = 0
        for i in range(1, 20):
            p = "C%02d" % i
            if os.path.exists(os.path.join(os.path.dirname(__file__), "..", "props", p + ".py")):
                rc = max(rc, runner.run_property(p, tier))
        return rc
    return runner.run_property(pid, tier)


if __name__ == "__main__":
    try:
        sys.exit(main(sys.argv[1:]))
    except SystemExit:
        raise
    except BaseException:
        traceback.print_exc()
        sys.exit(3)
