"""Symbolic value domain (DESIGN §4.3).

float  -> Fl(v: Real, nan: Bool)        mathematical reals + an explicit NaN flag (A1)
int    -> In(v: Int)                    unbounded
bool   -> z3 Bool (or a concrete python bool)
key    -> KeyV(term of sort K)          contract objects; spec functions mult/mr/cr/is_cash/sh
object -> Obj(oid, kind, cls)           heap-allocated record / map / column-wise object map / sequence
"""
import z3

K = z3.DeclareSort("K")
RealS, IntS, BoolS = z3.RealSort(), z3.IntSort(), z3.BoolSort()

# spec functions of contract objects (A9: constants of the object)
mult = z3.Function("mult", K, RealS)
mr = z3.Function("mr", K, RealS)
cr = z3.Function("cr", K, RealS)
is_cash = z3.Function("is_cash", K, BoolS)
is_rate = z3.Function("is_rate", K, BoolS)     # instance of contracts.Rate (whose verify() differs)
sh = z3.Function("sh", K, K)           # static hashing at the (fixed) current clock

TRUE, FALSE = z3.BoolVal(True), z3.BoolVal(False)


def R(x):
    if isinstance(x, bool):
        raise TypeError("bool used as real")
    if isinstance(x, int):
        return z3.RealVal(x)
    if isinstance(x, float):
        return z3.RealVal(repr(x))
    return x


class Fl:
    """A python float / np.float64: value + NaN flag."""
    __slots__ = ("v", "nan")

    def __init__(self, v, nan=None):
        self.v = R(v)
        if z3.is_expr(self.v) and self.v.sort() == IntS:
            self.v = z3.ToReal(self.v)
        self.nan = FALSE if nan is None else nan

    def __repr__(self):
        return "Fl(%s%s)" % (self.v, "" if z3.is_false(self.nan) else ", nan=%s" % self.nan)


class Tm(Fl):
    """a datetime / Timestamp: seconds on one naive time line. Always truthy (unlike a float 0.0)."""
    __slots__ = ()


NAN = None  # filled below
CURRENT = [None]     # the interpreter of the path being executed (one per process at a time)





def nanval():
    return Fl(z3.RealVal(0), TRUE)


class In:
    """A python int (unbounded, A1)."""
    __slots__ = ("v",)

    def __init__(self, v):
        self.v = z3.IntVal(v) if isinstance(v, int) else v

    def __repr__(self):
        return "In(%s)" % self.v


class KeyV:
    """A contract object (key of the broker/exchange maps)."""
    __slots__ = ("t",)

    def __init__(self, t):
        self.t = t

    def __repr__(self):
        return "Key(%s)" % self.t


class Obj:
    """Handle of a heap object. kind: rec | map | objmap | seq"""
    __slots__ = ("oid", "kind", "cls")

    def __init__(self, oid, kind, cls):
        self.oid, self.kind, self.cls = oid, kind, cls

    def __repr__(self):
        return "<%s %s #%d>" % (self.kind, self.cls, self.oid)

    def __hash__(self):
        return hash(self.oid)

    def __eq__(self, o):
        return isinstance(o, Obj) and o.oid == self.oid


class RowRef:
    """A row of a column-wise object map, e.g. exchange._books[k] (a LimitOrderBook)."""
    __slots__ = ("m", "k", "cls")

    def __init__(self, m, k, cls):
        self.m, self.k, self.cls = m, k, cls

    def __repr__(self):
        return "<row %s[%s]>" % (self.cls, self.k)


class Builtin:
    __slots__ = ("name",)

    def __init__(self, name):
        self.name = name

    def __repr__(self):
        return "<builtin %s>" % self.name


class BoundMethod:
    __slots__ = ("recv", "name")

    def __init__(self, recv, name):
        self.recv, self.name = recv, name


class ClassRef:
    __slots__ = ("name",)

    def __init__(self, name):
        self.name = name

    def __repr__(self):
        return "<class %s>" % self.name


class Opaque:
    """A value the engine carries around without interpreting (messages, ellipsis, ...)."""
    __slots__ = ("tag",)

    def __init__(self, tag):
        self.tag = tag

    def __repr__(self):
        return "<opaque %s>" % self.tag


Act = z3.DeclareSort("Act")      # opaque actions / events carried through queues
arr_at = z3.Function("arr_at", Act, IntS, RealS)
arr_nan = z3.Function("arr_nan", Act, IntS, BoolS)
arr_len = z3.Function("arr_len", Act, IntS)


class ActV:
    """an opaque action value (element of a gym space)"""
    __slots__ = ("t",)

    def __init__(self, t):
        self.t = t

    def __repr__(self):
        return "Act(%s)" % self.t


class Arb:
    """a value of a location the contracts do not model (e.g. an attribute added to a class): arbitrary.
    Comparisons with it are arbitrary booleans; nothing else is known about it."""
    __slots__ = ("tag",)

    def __init__(self, tag):
        self.tag = tag

    def __repr__(self):
        return "<arbitrary %s>" % self.tag


def is_symbool(x):
    return z3.is_expr(x) and x.sort() == BoolS


def lift_fl(x):
    if isinstance(x, Fl):
        return x
    if isinstance(x, In):
        return Fl(z3.ToReal(x.v))
    if isinstance(x, bool):
        return Fl(1 if x else 0)
    if isinstance(x, (int, float)):
        if isinstance(x, float) and x != x:
            return nanval()
        return Fl(x)
    if z3.is_expr(x) and x.sort() == RealS:
        return Fl(x)
    if z3.is_expr(x) and x.sort() == IntS:
        return Fl(z3.ToReal(x))
    if type(x).__name__ == "Builtin" and getattr(x, "name", None) == "np.inf":
        # A(inf): numpy's infinity is an unconstrained real constant here; in the code under contract it is only ever stored as the
        # default size of a quote (sizes take part in no property), never used in arithmetic or comparisons
        return Fl(FLOAT_INF)
    raise TypeError("cannot use %r as a float" % (x,))


FLOAT_INF = z3.Real("np.inf")


def vite(c, a, b):
    """value-level if-then-else"""
    if isinstance(c, bool):
        return a if c else b
    if z3.is_true(c):
        return a
    if z3.is_false(c):
        return b
    if a is b:
        return a
    if isinstance(a, Fl) or isinstance(b, Fl):
        a, b = lift_fl(a), lift_fl(b)
        return Fl(z3.If(c, a.v, b.v), z3.simplify(z3.If(c, a.nan, b.nan)))
    if isinstance(a, In) and isinstance(b, In):
        return In(z3.If(c, a.v, b.v))
    if isinstance(a, KeyV) and isinstance(b, KeyV):
        return KeyV(z3.If(c, a.t, b.t))
    if isinstance(a, ActV) and isinstance(b, ActV):
        return ActV(z3.If(c, a.t, b.t))
    if isinstance(a, Obj) and isinstance(b, Obj) and CURRENT[0] is not None:
        I = CURRENT[0]
        pa, pb = I.heap.get(a.oid, {}), I.heap.get(b.oid, {})
        if "act" in pa and "act" in pb:
            from .models import act_array
            return act_array(I, z3.If(c, pa["act"], pb["act"]))
    if isinstance(a, (bool,)) or is_symbool(a):
        return z3.If(c, tobool(a), tobool(b))
    if isinstance(a, (int, float)) and isinstance(b, (int, float)):
        return vite(c, lift_fl(a), lift_fl(b))
    if a is None and b is None:
        return None
    raise TypeError("vite: cannot merge %r and %r" % (a, b))


def tobool(x):
    if isinstance(x, bool):
        return z3.BoolVal(x)
    if is_symbool(x):
        return x
    raise TypeError("not a bool: %r" % (x,))


def absr(x):
    return z3.If(x >= 0, x, -x)
