#!/bin/bash
# take the deliverables of one round of sub-agent worktrees (<root>/<Cxx>/_seed/{patch.diff,demo.py,notes.md}) into seeded/<Cxx>_<suffix>/,
# drop exact duplicates of seeds already kept (same added/removed lines), and remove the scratch worktrees
# usage: tools/intake_round.sh /tmp/wt3 d
ROOT="$1"; SUF="$2"; HERE="$(cd "$(dirname "$0")/.." && pwd)"
sig() { grep '^[+-]' "$1" | grep -v '^+++\|^---' | sed 's/[[:space:]]*$//' | grep -v '^[+-][[:space:]]*#' ; }
for D in "$ROOT"/C*/; do
  P=$(basename "$D"); S="$D/_seed"
  [ -f "$S/patch.diff" ] && [ -f "$S/demo.py" ] || { echo "$P: incomplete deliverables"; continue; }
  DUP=""
  for O in "$HERE"/seeded/${P}_*/patch.diff; do
    [ -f "$O" ] && [ "$(sig "$S/patch.diff")" == "$(sig "$O")" ] && DUP=$(basename "$(dirname "$O")")
  done
  if [ -n "$DUP" ]; then echo "$P: duplicate of $DUP, dropped"; else
    mkdir -p "$HERE/seeded/${P}_$SUF"; cp "$S/patch.diff" "$S/demo.py" "$HERE/seeded/${P}_$SUF/"; cp "$S/notes.md" "$HERE/seeded/${P}_$SUF/" 2>/dev/null
    echo "$P: kept as ${P}_$SUF"; fi
  git -C /repo worktree remove --force "$ROOT/$P" 2>/dev/null
done
git -C /repo worktree prune
