#!/usr/bin/env python3
"""Regenerate closure_hints.json: run each kernel property once with VERIF_WRITE_HINTS and record which callee contracts the dynamic
closure added. The file is a scheduling hint only (it lets the runner verify callees in the first round, in parallel); the closure
itself is always recomputed at run time.  usage: tools/mkclosure.py [Cxx ...]"""
import json, os, subprocess, sys, tempfile
HERE = os.path.dirname(os.path.dirname(os.path.abspath(__file__)))
props = sys.argv[1:] or ["C%02d" % i for i in range(1, 20)]
tmp = tempfile.mktemp(prefix="hints_")
path = os.path.join(HERE, "closure_hints.json")
old = json.load(open(path)) if os.path.exists(path) else {}
for p in props:
    scr = tempfile.mkdtemp(prefix="hints_ev_")
    env = dict(os.environ, VERIF_WRITE_HINTS=tmp, VERIF_EVIDENCE_DIR=os.path.join(scr, "e"), VERIF_REPLAY_DIR=os.path.join(scr, "r"))
    subprocess.run([os.path.join(HERE, "vcheck"), p], env=env, capture_output=True, text=True)
    subprocess.run(["rm", "-rf", scr])
if os.path.exists(tmp):
    for l in open(tmp):
        old.update(json.loads(l))
    os.remove(tmp)
json.dump(old, open(path, "w"), indent=1, sort_keys=True)
print({k: len(v) for k, v in old.items()})
