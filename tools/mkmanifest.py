#!/usr/bin/env python3
"""Regenerates MANIFEST.json from props/*.py (claimed checks) and tools/not_applicable.json."""
import json, os, re, sys, importlib
HERE = os.path.dirname(os.path.dirname(os.path.abspath(__file__)))
sys.path.insert(0, HERE)
ALL = ["C%02d" % i for i in range(1, 20)]
checks, na = [], []
reasons = json.load(open(os.path.join(HERE, "tools", "not_applicable.json")))
for pid in ALL:
    path = os.path.join(HERE, "props", pid + ".py")
    if not os.path.exists(path):
        na.append({"property_id": pid, "reason": reasons.get(pid, "check not built yet (DESIGN.md section 10 build order); no claim is made")})
        continue
    src = open(path).read()
    def grab(name, default=""):
        m = re.search(r"^%s\s*=\s*(\(.*?\)|\".*?\"|'.*?')\s*$" % name, src, re.M | re.S)
        return eval(m.group(1)) if m else default
    level = grab("LEVEL", "other")
    checks.append({
        "property_id": pid,
        "quick_cmd": "./vcheck %s --tier quick" % pid,
        "thorough_cmd": "./vcheck %s --tier thorough" % pid,
        "evidence_file": "evidence/%s.json" % pid,
        "replay_cmd_template": "./vcheck replay {path}",
        "engine": "pyvc",
        "level_claimed": {"category": level, "text": grab("LEVEL_TEXT", ""), "design_ref": "DESIGN.md section 7 (%s)" % pid},
        "level_note": grab("LEVEL_NOTE", "trusted base: own AST->SMT VC generator (unverified), z3/cvc5, trusted models of builtins; floats as reals (A1); see evidence.assumptions"),
        "technique": grab("TECHNIQUE", "contract-based deductive verification: sidecar contracts on the real functions, VCs generated from the working tree's AST, discharged by z3/cvc5"),
    })
man = {
    "version": 1,
    "setup_cmd": "./vcheck --setup",
    "hooks": {"guard": "TRADINGENV_VERIF", "enable": "no hooks: contracts are sidecar files under /verif/contracts and run-time contract wrappers are installed by the check process itself",
              "baseline_off_cmd": "cd /repo && /venv/bin/python -m pytest -ra -q -p no:cacheprovider --timeout=900 --continue-on-collection-errors",
              "source_commits": [], "add_only": True},
    "engines": [{"name": "pyvc", "path": "pyvc/", "serves_properties": [c["property_id"] for c in checks],
                 "kind_free_text": "own Boogie-style VC generator for a Python subset (AST -> symbolic execution -> quantifier-free SMT), sidecar contracts, z3 5.1 primary, cvc5 1.0.3 and z3 4.8.12 fallback/cross-check, Lean 4 for the finite-sum lemmas; bounded run-time-contract shell for library-bound code"}],
    "checks": checks,
    "not_applicable": na,
    "notes": "Exit codes of every check: 0 held (possibly with KNOWN-FINDING lines), 1 VIOLATION, 2 undecided (solver unknown / unsupported construct / contract no longer binds), 3 checker broken. See DESIGN.md.",
}
json.dump(man, open(os.path.join(HERE, "MANIFEST.json"), "w"), indent=1)
print("claimed:", [c["property_id"] for c in checks], "not_applicable:", len(na))
