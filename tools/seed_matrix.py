#!/usr/bin/env python3
"""Run every kept seeded change against the check of the property it breaks (and optionally more), each on its own scratch copy
of /repo's tradingenv package (outside /repo and /verif), in parallel; nothing in /repo is touched.
usage: tools/seed_matrix.py [--jobs N] [seed ids...]        writes seeded/MATRIX.json and prints one line per seed"""
import json, os, shutil, subprocess, sys, tempfile, time
from concurrent.futures import ThreadPoolExecutor
HERE = os.path.dirname(os.path.dirname(os.path.abspath(__file__)))
REPO = os.environ.get("SEED_REPO", "/repo")


def run_one(sid):
    sdir = os.path.join(HERE, "seeded", sid)
    prop = sid.split("_")[0]
    tmp = tempfile.mkdtemp(prefix="seedmx_%s_" % sid)
    try:
        shutil.copytree(os.path.join(REPO, "tradingenv"), os.path.join(tmp, "tradingenv"))
        p = subprocess.run(["patch", "-p1", "-s", "-i", os.path.join(sdir, "patch.diff")], cwd=tmp, capture_output=True, text=True)
        if p.returncode != 0:
            p = subprocess.run(["git", "apply", os.path.join(sdir, "patch.diff")], cwd=tmp, capture_output=True, text=True)
            if p.returncode != 0:
                return sid, {"error": "patch does not apply: " + (p.stderr or p.stdout)[:200]}
        env = dict(os.environ, VERIF_REPO=tmp, VERIF_EVIDENCE_DIR=os.path.join(tmp, "evidence"), VERIF_REPLAY_DIR=os.path.join(tmp, "replays"),
                   VERIF_JOBS=os.environ.get("SEED_INNER_JOBS", "6"))
        t0 = time.time()
        q = subprocess.run([os.path.join(HERE, "vcheck"), prop, "--tier", "quick"], env=env, capture_output=True, text=True, timeout=3000)
        failed = [l.strip().replace("failed obligation: ", "") for l in q.stdout.splitlines() if "failed obligation" in l]
        return sid, {"property": prop, "exit": q.returncode, "wall_s": round(time.time() - t0, 1), "failed_obligations": failed[:8],
                     "witnessed": any("VIOLATION" in l and "no-failing-input-found" not in l for l in q.stdout.splitlines()),
                     "undecided": [l.strip() for l in q.stdout.splitlines() if l.startswith("UNDECIDED")][:3]}
    except Exception as ex:
        return sid, {"error": "%s: %s" % (type(ex).__name__, ex)}
    finally:
        shutil.rmtree(tmp, ignore_errors=True)


def main():
    args = sys.argv[1:]
    jobs = 3
    if "--jobs" in args:
        i = args.index("--jobs")
        jobs = int(args[i + 1])
        del args[i:i + 2]
    seeds = args or sorted(d for d in os.listdir(os.path.join(HERE, "seeded")) if os.path.isfile(os.path.join(HERE, "seeded", d, "patch.diff")))
    out = {}
    with ThreadPoolExecutor(jobs) as ex:
        for sid, r in ex.map(run_one, seeds):
            out[sid] = r
            print(sid, json.dumps(r)[:300], flush=True)
    path = os.path.join(HERE, "seeded", "MATRIX.json")
    old = json.load(open(path)) if os.path.exists(path) and args else {}
    old.update(out)
    json.dump(old, open(path, "w"), indent=1, sort_keys=True)
    caught = [s for s, r in old.items() if r.get("exit") == 1]
    print("caught %d / %d" % (len(caught), len(old)), "missed:", [s for s, r in old.items() if r.get("exit") != 1])


if __name__ == "__main__":
    main()
