#!/bin/bash
# run every registered quick check on /repo, one after the other (each uses all cores), and rewrite evidence/; prints one line per property
# usage: tools/check_all.sh [quick|thorough] [Cxx ...]
HERE="$(cd "$(dirname "$0")/.." && pwd)"; cd "$HERE"
TIER="${1:-quick}"; shift
git -C /repo diff --quiet || { echo "/repo has uncommitted changes: refusing to write evidence from a modified tree"; exit 3; }
PROPS=("$@"); [ ${#PROPS[@]} -eq 0 ] && PROPS=(C01 C02 C03 C04 C05 C06 C07 C08 C09 C10 C11 C12 C13 C14 C15 C16 C17 C18 C19)
RC=0
for P in "${PROPS[@]}"; do
  S=$(date +%s); OUT=$(./vcheck "$P" --tier "$TIER" 2>&1); R=$?
  echo "$P exit=$R $(( $(date +%s) - S ))s $(echo "$OUT" | grep -E '^   functions=' | tail -1)"
  [ $R -ne 0 ] && { RC=1; echo "$OUT" | grep -E "VIOLATION|UNDECIDED|CHECKER-BROKEN|failed obligation" | head -5; }
done
exit $RC
