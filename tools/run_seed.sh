#!/bin/bash
# apply a seeded change to /repo, run the given property checks, undo it straight afterwards
# usage: tools/run_seed.sh <seed id> <Cxx> [Cyy ...]
ID="$1"; shift
HERE="$(cd "$(dirname "$0")/.." && pwd)"
git -C /repo diff --quiet || { echo "/repo has uncommitted changes"; exit 3; }
git -C /repo apply "$HERE/seeded/$ID/patch.diff" || exit 3
trap 'git -C /repo checkout -- . ' EXIT
# evidence and replay files of runs against a seeded tree never land in /verif/evidence or /verif/replays
SCR="$(mktemp -d /tmp/seedrun.XXXXXX)"
export VERIF_EVIDENCE_DIR="$SCR/evidence" VERIF_REPLAY_DIR="$SCR/replays"
trap 'git -C /repo checkout -- . ; rm -rf "$SCR"' EXIT
for P in "$@"; do
  OUT=$("$HERE/vcheck" "$P" --tier "${TIER:-quick}" 2>&1); RC=$?
  echo "== seed $ID vs $P: exit $RC"
  echo "$OUT" | grep -E "VIOLATION|failed obligation|UNDECIDED|CHECKER-BROKEN|KNOWN" | head -8
done
