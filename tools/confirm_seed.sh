#!/bin/bash
# Confirm one seeded change in a scratch worktree of /repo (outside /repo and /verif):
#   demo passes on the unchanged tree, fails with the patch, and the full baseline suite still passes with the patch.
# usage: tools/confirm_seed.sh <seed id, e.g. C01_a> [--no-suite]
ID="$1"; HERE="$(cd "$(dirname "$0")/.." && pwd)"; S="$HERE/seeded/$ID"
WT="$(mktemp -d /tmp/confirm_${ID}_XXXX)"; rmdir "$WT"
git -C /repo worktree add -q --detach "$WT" HEAD || exit 3
cleanup() { git -C /repo worktree remove --force "$WT" 2>/dev/null; rm -rf "$WT"; }
trap cleanup EXIT
ORIG="/tmp/wt/${ID%_*}"
ORIG2="/tmp/wt2/${ID%_*}"; ORIG3="/tmp/wt3/${ID%_*}"; ORIG4="/tmp/wt4/${ID%_*}"     # later rounds of sub-agent worktrees
mkdir -p "$WT/_seedrun"; sed -e "s#$ORIG4#$WT#g" -e "s#$ORIG3#$WT#g" -e "s#$ORIG2#$WT#g" -e "s#$ORIG#$WT#g" "$S/demo.py" > "$WT/_seedrun/demo_$ID.py"
echo 'collect_ignore_glob = ["*"]' > "$WT/_seedrun/conftest.py"
run_demo() { (cd "$WT" && PYTHONPATH="$WT" timeout 600 /venv/bin/python "_seedrun/demo_$ID.py" > "$WT/_seedrun/out_$1.txt" 2>&1; echo $?); }
CLEAN=$(run_demo clean)
git -C "$WT" apply "$S/patch.diff" || { echo "$ID: patch does not apply"; exit 3; }
PATCHED=$(run_demo patched)
SUITE="skipped"
if [ "$2" != "--no-suite" ]; then
  SUITE=$(cd "$WT" && timeout 1700 /venv/bin/python -m pytest -q -p no:cacheprovider --timeout=900 --continue-on-collection-errors --ignore=_seedrun 2>&1 | tail -1)
fi
HEAD=$(git -C /repo rev-parse --short HEAD)
python3 - "$ID" "$CLEAN" "$PATCHED" "$SUITE" "$HEAD" "$S" "$WT" <<'EOF'
import json, sys, os
sid, clean, patched, suite, head, S, WT = sys.argv[1:8]
meta_p = os.path.join(S, "meta.json")
meta = json.load(open(meta_p)) if os.path.exists(meta_p) else {}
notes = open(os.path.join(S, "notes.md")).read() if os.path.exists(os.path.join(S, "notes.md")) else ""
tail = lambda p: open(p).read()[-600:] if os.path.exists(p) else ""
meta.update({"id": sid, "property": sid.split("_")[0], "needs_to_manifest": meta.get("needs_to_manifest", notes.strip()),
             "confirmed": {"repo_head": head, "demo_exit_on_unchanged_tree": int(clean), "demo_exit_with_patch": int(patched),
                           "suite_with_patch": suite,
                           "ran": ["git worktree add <scratch> HEAD", "python demo.py (unchanged)", "git apply patch.diff", "python demo.py (patched)",
                                   "python -m pytest -q -p no:cacheprovider --timeout=900 --continue-on-collection-errors (patched)"],
                           "demo_output_with_patch_tail": tail(os.path.join(WT, "_seedrun", "out_patched.txt"))},
             "kept": int(clean) == 0 and int(patched) != 0 and ("641 passed" in suite or suite == "skipped")})
json.dump(meta, open(meta_p, "w"), indent=1)
print(sid, "clean=%s patched=%s suite=%s kept=%s" % (clean, patched, suite, meta["kept"]))
EOF
