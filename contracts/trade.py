"""Contracts for tradingenv/broker/trade.py and fees.py."""
import z3
from pyvc.vals import *
from pyvc.contract import Contract, Cl, PW
from . import register
from ._spec import mk_fees

@register
class Commissions(Contract):
    relpath, qual = "tradingenv/broker/fees.py", "BrokerFees.commissions"
    props = ("C01", "C07")

    def pre_state(self, I):
        t = I.new_rec("Trade", notional=I.fl("notional"))
        return {"self": mk_fees(I), "trade": t}

    def formula(self, c, old=True):
        f = c.heap(old)[c.self.oid]
        n = c.heap(old)[c.trade.oid]["notional"]
        return Fl(f["fixed"].v + absr(n.v) * f["proportional"].v, n.nan)

    def result(self, c):
        return self.formula(c)

    def ensures(self, c):
        r = lift_fl(c.result)
        return [Cl("formula", z3.Implies(z3.Not(r.nan), r.v == self.formula(c).v))]


@register
class TradeInit(Contract):
    relpath, qual = "tradingenv/broker/trade.py", "Trade.__init__"
    props = ("C01", "C12", "C13")

    def pre_state(self, I):
        return {"self": I.new_rec("Trade"), "time": I.fl("time"), "contract": KeyV(I.key("c")),
                "quantity": I.fl("dq", may_nan=True), "bid_price": I.fl("tbid", may_nan=True),
                "ask_price": I.fl("task", may_nan=True), "broker_fees": mk_fees(I)}

    def raises(self, c):
        q, b, a = lift_fl(c.quantity), lift_fl(c.bid_price), lift_fl(c.ask_price)
        return {"ValueError": {"when": z3.Or(b.nan, a.nan, q.nan, q.v == 0, is_cash(c.contract.t))}}

    def witness(self, c):
        q, b, a = lift_fl(c.quantity), lift_fl(c.bid_price), lift_fl(c.ask_price)
        k = c.contract.t
        f = c.I.heap[c.broker_fees.oid]
        return {"dq": q.v, "dq_nan": q.nan, "bid": b.v, "bid_nan": b.nan, "ask": a.v, "ask_nan": a.nan, "is_cash": is_cash(k),
                "mult": mult(k), "cr": cr(k), "fee_fixed": f["fixed"].v, "fee_prop": f["proportional"].v}

    def fields(self, c):
        q, b, a = lift_fl(c.quantity), lift_fl(c.bid_price), lift_fl(c.ask_price)
        k = c.contract.t
        acq = Fl(z3.If(q.v > 0, a.v, b.v))
        notional = Fl(acq.v * q.v * mult(k))
        fees = c.heap(True)[c.broker_fees.oid]
        return {
            "time": c.time, "contract": c.contract, "quantity": Fl(q.v), "bid_price": Fl(b.v), "ask_price": Fl(a.v),
            "acq_price": acq, "notional": notional, "cost_of_cash": Fl(notional.v * cr(k)),
            "cost_of_commissions": Fl(fees["fixed"].v + absr(notional.v) * fees["proportional"].v),
            "cost_of_spread": Fl(absr(q.v) * mult(k) * (a.v - b.v)),
        }

    def modifies(self, c):
        return [("obj", c.self)]

    def havoc(self, c):
        for n, v in self.fields(c).items():
            c.I.fset(c.self, n, v)

    def ensures(self, c):
        out = []
        cur = c.heap()[c.self.oid]
        for n, v in self.fields(c).items():
            got = cur.get(n)
            if isinstance(v, Fl):
                g = lift_fl(got) if got is not None else None
                out.append(Cl("field[%s]" % n, FALSE if g is None else z3.And(z3.Not(g.nan), g.v == v.v)))
            elif isinstance(v, KeyV):
                out.append(Cl("field[%s]" % n, got.t == v.t if isinstance(got, KeyV) else FALSE))
        return out
