"""Contracts for tradingenv/spaces.py and Rebalancing.__init__ (C17, C08)."""
import z3
from pyvc.vals import *
from pyvc.vals import arr_at, arr_nan, arr_len
from pyvc.engine import Unsupported, PyRaise
from pyvc.models import sym_seq, forall_index, act_array, MatV
from pyvc.contract import Contract, Cl, PW, PWI
from . import register, REGISTRY
from ._spec import static_key
from .allocation import as_map

REL = "tradingenv/spaces.py"


def mk_contract_seq(I, base="contracts"):
    """the `contracts` list of an action space: n contracts whose static hashes are pairwise distinct
    (PortfolioSpace.__init__ rejects duplicates; TRUSTED for FutureChain/Future clashes, as the source notes)."""
    n = I.int(base + "?len")
    f = I.func(base, IntS, K)
    inv = I.func(base + "?inv", K, IntS)
    I.assume(n >= 0)
    def at(i):
        t = f(i)
        I.add_key(t)          # contracts of the space are keys of the path: pointwise facts are instantiated on them
        return KeyV(t)
    seq = sym_seq(I, at, n, "list")
    I.heap[seq.oid]["inv"] = lambda k: inv(k)
    I.assume_pwi(lambda i: z3.Implies(z3.And(i >= 0, i < n), inv(sh(f(i))) == i))
    I.assume_pw(lambda k: sh(sh(k)) == sh(k))
    # TRUSTED: static hashing never turns a non-cash contract into cash nor vice versa (Cash hashes to itself; a chain's lead is a Future)
    I.assume_pw(lambda k: is_cash(sh(k)) == is_cash(k))
    return seq


def mk_box_space(I):
    cs = mk_contract_seq(I)
    n = I.heap[cs.oid]["len"]
    # per-contract bounds (gymnasium's Box broadcasts scalar bounds to arrays; array bounds are allowed): low[i] <= high[i]
    lowf, highf = I.func("low", IntS, RealS), I.func("high", IntS, RealS)
    I.assume_pwi(lambda i: lowf(i) <= highf(i))
    return I.new_rec("BoxPortfolio", contracts=cs, _as_weights=[True, False][I.choice(2)], _fractional=True,
                     _margin=I.fl("space_margin"), base_currency=KeyV(I.key("cash")),
                     low=sym_seq(I, lambda i: Fl(lowf(i)), n, "ndarray"), high=sym_seq(I, lambda i: Fl(highf(i)), n, "ndarray"),
                     shape=(In(n),), dtype=Opaque("float64"), _low=lowf, _high=highf)


def mk_discrete_space(I):
    cs = mk_contract_seq(I)
    n = I.heap[cs.oid]["len"]
    na = I.int("n_actions")
    I.assume(na >= 1)
    tab = I.func("allocations", IntS, IntS, RealS)
    return I.new_rec("DiscretePortfolio", contracts=cs, _as_weights=[True, False][I.choice(2)], _fractional=True,
                     _margin=Fl(0), base_currency=KeyV(I.key("cash")), n=In(na), start=In(0),
                     _allocations=MatV(na, n, lambda a, j: Fl(tab(a, j))))


def box_member(I, sp, x):
    """membership of a float array in the box, as the property states it: right shape, every component within bounds
    (a NaN component is outside)"""
    h = I.heap
    f = h[sp.oid]
    n = h[f["contracts"].oid]["len"]
    px = h[x.oid]
    lo, hi = f["_low"], f["_high"]
    inside = lambda i: z3.And(z3.Not(px["at"](i).nan), lo(i) <= px["at"](i).v, px["at"](i).v <= hi(i))
    return z3.And(px["len"] == n, forall_index(I, "in_box#%d" % x.oid, z3.IntVal(0), n, inside))


@register
class BoxContains(Contract):
    relpath, qual = REL, "BoxPortfolio.contains"
    props = ("C17",)

    def pre_state(self, I):
        sp = mk_box_space(I)
        x = act_array(I, z3.Const("x", Act))
        return {"self": sp, "x": x}

    def requires(self, c):
        return [Cl("array_argument", isinstance(c.x, Obj) and c.x.kind == "seq" and "at" in c.I.heap[c.x.oid])]

    def result(self, c):
        return box_member(c.I, c.self, c.x)

    def ensures(self, c):
        r = c.result
        r = z3.BoolVal(r) if isinstance(r, bool) else r
        return [Cl("iff", r == box_member(c.I, c.self, c.x))]


def discrete_member(sp_fields, a):
    """gymnasium.spaces.Discrete.contains (A4): python/numpy integers in [start, start+n) only"""
    if isinstance(a, In):
        return z3.And(a.v >= sp_fields["start"].v, a.v < sp_fields["start"].v + sp_fields["n"].v)
    return FALSE


def space_contains(I, sp, action):
    if sp.cls == "BoxPortfolio":
        if not (isinstance(action, Obj) and action.kind == "seq"):
            raise Unsupported("non-array action for a box space")
        return box_member(I, sp, action)
    if sp.cls == "DiscretePortfolio":
        return discrete_member(I.heap[sp.oid], action)
    raise Unsupported("space %s" % sp.cls)


def discrete_contains_model(I, args, kwargs):
    sp, a = args
    return discrete_member(I.heap[sp.oid], a)


def denoted_allocation(I, sp, action, heap=None):
    """C17: the allocation an in-space action denotes: the weight vector itself (box) / the indexed row (discrete),
    keyed by the contracts' static hashes, cash and zero entries dropped"""
    h = heap or I.heap
    f = h[sp.oid]
    cs = h[f["contracts"].oid]
    n, at, inv = cs["len"], cs["at"], cs["inv"]
    if sp.cls == "BoxPortfolio":
        px = h[action.oid]
        val = lambda j: px["at"](j)
    else:
        tab = f["_allocations"]
        val = lambda j: tab.at(action.v, j)
    def dom(k):
        j = inv(k)
        I.add_idx(j)
        return z3.And(j >= 0, j < n, sh(at(j).t) == k, z3.Not(is_cash(at(j).t)), z3.Or(val(j).nan, val(j).v != 0))
    def get(k):
        I.add_idx(inv(k))
        return val(inv(k))
    return get, dom


@register
class MakeRebalancingRequest(Contract):
    """C17: an action outside the space is rejected before any Rebalancing exists; an in-space action becomes the
    allocation it denotes"""
    relpath, qual = REL, "PortfolioSpace.make_rebalancing_request"
    props = ("C17", "C08")

    def pre_state(self, I):
        if I.choice(2) == 0:
            sp = mk_box_space(I)
            action = act_array(I, z3.Const("action", Act))
        else:
            sp = mk_discrete_space(I)
            action = In(I.int("action")) if I.choice(2) == 0 else I.fl("action_f")
        return {"self": sp, "action": action, "time": I.tm("now"), "broker": None}

    def requires(self, c):
        out = []
        if c.self.cls == "DiscretePortfolio":
            f = c.I.heap[c.self.oid]
            out.append(Cl("table_width", f["_allocations"].ncols == c.I.heap[f["contracts"].oid]["len"]))
        return out

    def raises(self, c):
        return {"ValueError": {"when": z3.Not(space_contains(c.I, c.self, c.action))}}

    def result(self, c):
        I = c.I
        f = c.old[c.self.oid]
        get, dom = denoted_allocation(I, c.self, c.action, c.old)
        cls = "Weights" if f["_as_weights"] else "NrContracts"
        alloc = I.new_rec(cls, _items=I.new_map(get, dom, None, "dict"))
        I.trace.append(("rebalancing_built",))
        I.trace.append(("rebalance_request", lift_fl(c.time).v))
        return I.new_rec("Rebalancing", allocation=alloc, absolute=True, fractional=f["_fractional"], margin=f["_margin"],
                         time=c.time, profit_on_idle_cash=Opaque("..."), context_pre=Opaque("..."), trades=Opaque("..."),
                         context_post=Opaque("..."))

    def ensures(self, c):
        I = c.I
        r = c.result
        h = c.heap()
        if not (isinstance(r, Obj) and r.kind == "rec" and r.cls == "Rebalancing"):
            return [Cl("returns_rebalancing", FALSE)]
        rf = h[r.oid]
        f = c.old[c.self.oid]
        a = rf["allocation"]
        get, dom = denoted_allocation(I, c.self, c.action, c.old)
        m = as_map(h, a)
        mg, md = h[m.oid]["get"], h[m.oid]["dom"]
        return [
            Cl("measure", a.cls == ("Weights" if f["_as_weights"] else "NrContracts")),
            PW("allocation_is_action", lambda k: z3.And(md(k) == dom(k), z3.Implies(dom(k), z3.And(
                mg(k).nan == get(k).nan, z3.Implies(z3.Not(get(k).nan), mg(k).v == get(k).v))))),
            Cl("flags", z3.And(z3.BoolVal(rf["absolute"] is True), z3.BoolVal(rf["fractional"] == f["_fractional"]),
                               lift_fl(rf["margin"]).v == lift_fl(f["_margin"]).v, lift_fl(rf["time"]).v == lift_fl(c.time).v)),
        ]


@register
class NullAction(Contract):
    """C08: the action executed while the delay line fills: zero weights / action 0, and it must be in the space"""
    relpath, qual = REL, "PortfolioSpace.null_action"
    props = ("C08",)

    def pre_state(self, I):
        sp = mk_box_space(I) if I.choice(2) == 0 else mk_discrete_space(I)
        return {"self": sp}

    def requires(self, c):
        if c.self.cls == "BoxPortfolio":
            f = c.I.heap[c.self.oid]
            n = c.I.heap[f["contracts"].oid]["len"]
            return [PWI("zero_within_bounds", lambda i: z3.Implies(z3.And(0 <= i, i < n), z3.And(f["_low"](i) <= 0, 0 <= f["_high"](i))))]
        return []

    def result(self, c):
        I = c.I
        if c.self.cls == "BoxPortfolio":
            n = I.heap[I.heap[c.self.oid]["contracts"].oid]["len"]
            t = z3.Const(I.fresh_name("null_action"), Act)
            a = act_array(I, t)
            I.assume(arr_len(t) == n)
            I.assume_pwi(lambda i: z3.And(arr_at(t, i) == 0, z3.Not(arr_nan(t, i))))
            return a
        return In(0)

    def ensures(self, c):
        I = c.I
        r = c.result
        if c.self.cls == "BoxPortfolio":
            if not (isinstance(r, Obj) and r.kind == "seq" and "at" in I.heap[r.oid]):
                return [Cl("is_array", FALSE)]
            p = I.heap[r.oid]
            n = I.heap[I.heap[c.self.oid]["contracts"].oid]["len"]
            return [Cl("length", p["len"] == n),
                    PWI("zero_weights", lambda i: z3.Implies(z3.And(i >= 0, i < n), z3.And(z3.Not(p["at"](i).nan), p["at"](i).v == 0))),
                    Cl("in_space", box_member(I, c.self, r))]
        # discrete: gymnasium's Discrete contains integers only (A4)
        return [Cl("in_space", discrete_member(I.heap[c.self.oid], r)),
                Cl("is_action_zero", (r.v == 0) if isinstance(r, In) else FALSE)]


def space_sample(I, args, kwargs):
    """gymnasium Space.sample (A4): some element of the space"""
    sp = args[0]
    if sp.cls == "BoxPortfolio":
        t = z3.Const(I.fresh_name("sample"), Act)
        a = act_array(I, t)
        I.assume(box_member(I, sp, a))
        return a
    if sp.cls == "DiscretePortfolio":
        f = I.heap[sp.oid]
        v = I.int("sample")
        I.assume(z3.And(v >= f["start"].v, v < f["start"].v + f["n"].v))
        return In(v)
    raise Unsupported("sample of %s" % sp.cls)
