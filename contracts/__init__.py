"""Sidecar contracts for the real functions of tradingenv (nothing in /repo is annotated)."""
REGISTRY = {}


def register(obj):
    inst = obj() if isinstance(obj, type) else obj
    from pyvc.loops import LoopContract
    from pyvc.contract import LoopBodyContract
    if isinstance(inst, LoopBodyContract):
        REGISTRY[inst.name] = inst
    elif isinstance(inst, LoopContract):
        REGISTRY["loop:%s#%d" % (inst.qual, inst.ordinal)] = inst
    else:
        REGISTRY[inst.qual] = inst
    return obj


def load_all():
    from . import exchange, trade, broker, allocation, rebalancing, rebalance, exchange14, spaces, env, transmitter, chains, reset  # noqa
    REGISTRY["method:DiscretePortfolio.contains"] = spaces.discrete_contains_model
    REGISTRY["method:*.sample"] = spaces.space_sample
    REGISTRY["builtin:defaultdict"] = exchange14.empty_history
    return REGISTRY
