"""Contracts for tradingenv/broker/broker.py (C01, C05, C06, C09, C13)."""
import z3
from pyvc.vals import *
from pyvc import ghost
from pyvc.contract import Contract, Cl, PW, SumDelta, SumCongr
from pyvc.loops import LoopContract
from . import register
from ._spec import *

REL = "tradingenv/broker/broker.py"


def bmaps(c_or_heap, b):
    h = c_or_heap
    f = h[b.oid]
    return f["_holdings_quantity"], f["_holdings_margins"], f["_last_marking_to_market_price"]


def known_D3(v_old, k, dq):
    """region of the recorded finding D3: the traded position lands in the dust band and is snapped to 0"""
    q1 = v_old.qty(k) + dq
    return z3.And(q1 != 0, absr(q1) < v_old.eps)


# =========================================================================== marking_to_market
def mtm_processed(v, k):
    """the contract is actually marked: margined, liquidation-side quote present, already has a mark"""
    return z3.And(mr(k) != 0, z3.Not(liq_nan(v, k, v.qty(k))), v.has_last(k))


def mtm_pointwise(vo, vn, scope):
    """pointwise effect of marking-to-market on every key (scope(k): k is among the contracts marked)"""
    def f(k):
        p = z3.And(scope(k), mtm_processed(vo, k))
        return z3.And(
            z3.Implies(p, z3.And(vn.margin(k) == target(vo, k), vn.last(k) == liq(vo, k, vo.qty(k)), vn.has_last(k))),
            z3.Implies(z3.Not(p), z3.And(vn.margin(k) == vo.margin(k), vn.has_last(k) == vo.has_last(k),
                                         z3.Implies(vo.has_last(k), vn.last(k) == vo.last(k)))),
            z3.Implies(k != vo.cash, vn.qty(k) == vo.qty(k)),
            vn.in_margins(k) == z3.Or(vo.in_margins(k), p),
        )
    return f


@register
class MarkingToMarket(Contract):
    """C05: margin posted = requirement x multiplier x |position| x liquidation price, excess swept to cash;
    C01: marking changes no equity."""
    relpath, qual = REL, "Broker.marking_to_market"
    props = ("C01", "C05")

    def pre_state(self, I):
        b = mk_broker(I)
        if I.choice(2) == 0:
            return {"self": b, "contract": None}
        return {"self": b, "contract": KeyV(I.key("c"))}

    def requires(self, c):
        out = broker_requires(c.I, c.self, sign=False)
        if c.contract is not None:
            out.append(Cl("static_contract", static_key(c.contract.t)))
        return out

    def wf_post(self, c, vo, vn, scope):
        """weak WF is preserved; a marked contract ends with a non-negative margin that is 0 when flat;
        every other contract keeps the sign properties it had"""
        def f(k):
            p = z3.And(scope(k), mtm_processed(vo, k))
            strong_before = z3.And(vo.margin(k) >= 0, z3.Implies(vo.qty(k) == 0, vo.margin(k) == 0))
            strong_after = z3.And(vn.margin(k) >= 0, z3.Implies(vn.qty(k) == 0, vn.margin(k) == 0))
            return z3.And(wf_at(vn, k, False), z3.Implies(z3.Or(p, strong_before), strong_after))
        return f

    def modifies(self, c):
        q, m, l = bmaps(c.I.heap, c.self)
        return [("obj", q), ("obj", m), ("obj", l)]

    def havoc(self, c):
        """single-contract mode: the post-state is a function of the pre-state (strongest postcondition);
        the same terms are what `ensures` states, and what the body is verified against"""
        if c.contract is None:
            return Contract.havoc(self, c)
        I = c.I
        vo = SymBrokerView(I, c.self, c.old)
        k = c.contract.t
        p = mtm_processed(vo, k)
        q, m, l = bmaps(I.heap, c.self)
        I.mset(m, k, Fl(z3.If(p, target(vo, k), vo.margin(k))))
        I.heap[m.oid]["dom"] = (lambda od: lambda x: z3.Or(od(x), z3.And(x == k, p)))(c.old[m.oid]["dom"])
        I.mset(l, k, Fl(z3.If(p, liq(vo, k, vo.qty(k)), vo.last(k))))
        I.heap[l.oid]["dom"] = c.old[l.oid]["dom"]
        I.mset(q, vo.cash, Fl(vo.qty(vo.cash) + z3.If(p, vo.margin(k) + pend(vo, k) - target(vo, k), 0)))

    def scope(self, c):
        vo = SymBrokerView(c.I, c.self, c.old)
        if c.contract is None:
            return lambda k: vo.in_margins(k)
        return lambda k: k == c.contract.t

    def hints(self, c):
        if c.contract is None:
            return []
        vo = SymBrokerView(c.I, c.self, c.old)
        return [SumDelta("equity_step", EquityFam(c.self), [c.contract.t, vo.cash], z3.RealVal(0), old=c.old, new=c.new)]

    def ensures(self, c):
        I = c.I
        vo, vn = SymBrokerView(I, c.self, c.old), SymBrokerView(I, c.self, c.new)
        fam = EquityFam(c.self)
        if c.callsite and c.contract is not None:
            # the functional post-state installed by havoc() already carries the pointwise clauses
            return [Cl("equity_preserved", ghost.gsum(I, fam, c.new) == ghost.gsum(I, fam, c.old)),
                    PW("wf_preserved", self.wf_post(c, vo, vn, self.scope(c)))]
        out = [
            PW("margin_at_target", mtm_pointwise(vo, vn, self.scope(c))),
            Cl("equity_preserved", ghost.gsum(I, fam, c.new) == ghost.gsum(I, fam, c.old)),
            PW("wf_preserved", self.wf_post(c, vo, vn, self.scope(c))),
            Cl("cash_ok", cash_ok(vn)),
            PW("static_keys", lambda k: z3.Implies(z3.Or(vn.in_qty(k), vn.in_margins(k), vn.has_last(k)), static_key(k))),
        ]
        if c.contract is not None:
            k = c.contract.t
            p = mtm_processed(vo, k)
            out.append(Cl("cash_sweep", vn.qty(vo.cash) == vo.qty(vo.cash) +
                          z3.If(p, vo.margin(k) + pend(vo, k) - target(vo, k), 0)))
        return out

    def witness(self, c):
        return broker_witness(c)


@register
class MtmLoop(LoopContract):
    qual, ordinal = "Broker.marking_to_market", 0

    def havoc(self, L):
        b = L.env["self"]
        q, m, l = bmaps(L.I.heap, b)
        return [("obj", q), ("obj", m), ("obj", l)]

    def inv(self, L):
        I = L.I
        b = L.env["self"]
        ve, vc = SymBrokerView(I, b, L.entry), SymBrokerView(I, b, L.cur)
        fam = EquityFam(b)
        done = L.done
        scope = lambda k: z3.And(ve.in_margins(k), done(k))
        return [
            PW("marked", mtm_pointwise(ve, vc, scope)),
            Cl("equity", ghost.gsum(I, fam, L.cur) == ghost.gsum(I, fam, L.entry)),
            PW("wf", REGISTRY_MTM().wf_post(None, ve, vc, scope)),
            Cl("cash_ok", cash_ok(vc)),
            PW("static_keys", lambda k: z3.Implies(z3.Or(vc.in_qty(k), vc.in_margins(k), vc.has_last(k)), static_key(k))),
        ]

    def step_hints(self, L, k, start):
        b = L.env["self"]
        v = SymBrokerView(L.I, b, start)
        return [SumDelta("equity_step", EquityFam(b), [k, v.cash], z3.RealVal(0), old=start, new=L.cur)]


def REGISTRY_MTM():
    from . import REGISTRY
    return REGISTRY["Broker.marking_to_market"]


def trade_fields(heap, trade):
    """fields of a Trade given as a record or as a row of a keyed list of trades"""
    if isinstance(trade, RowRef):
        cols = heap[trade.m.oid]["cols"]
        return {n: f(trade.k) for n, f in cols.items()}
    return heap[trade.oid]


# =========================================================================== transact
def broker_witness(c):
    """values of the account at the skolem key (the key a failing pointwise obligation speaks about)"""
    I = c.I
    b = c.args["self"]
    v = SymBrokerView(I, b, I.snapshot())
    k = I.skolem()
    return {"eps": v.eps, "cash0": v.qty(v.cash), "q0": v.qty(k), "bid": v.bid(k), "ask": v.ask(k), "bid_nan": v.bid_nan(k),
            "ask_nan": v.ask_nan(k), "mult": mult(k), "mr": mr(k), "cr": cr(k), "margin0": v.margin(k), "has_last": v.has_last(k),
            "last0": v.last(k), "skolem_is_cash": k == v.cash}


@register
class Transact(Contract):
    """C01 sentence 2: one trade changes NLV by exactly
       -commission + multiplier x [(new position x its liq price) - (old position x its liq price) - dq x exec price]"""
    relpath, qual = REL, "Broker.transact"
    props = ("C01", "C05", "C03", "C13")
    shards = [[0, 0], [0, 1], [1, 0], [1, 1]]       # mr == 0 x has_last (the first two case splits)

    def pre_state(self, I):
        b = mk_broker(I)
        k = I.key("c")
        v = SymBrokerView(I, b)
        dq = I.real("dq")
        comm = I.real("commission")
        acqp = z3.If(dq > 0, v.ask(k), v.bid(k))
        t = I.new_rec("Trade", time=I.fl("t_time"), contract=KeyV(k), quantity=Fl(dq), bid_price=Fl(v.bid(k)),
                      ask_price=Fl(v.ask(k)), acq_price=Fl(acqp), notional=Fl(acqp * dq * mult(k)),
                      cost_of_cash=Fl(acqp * dq * mult(k) * cr(k)), cost_of_commissions=Fl(comm),
                      cost_of_spread=Fl(absr(dq) * mult(k) * (v.ask(k) - v.bid(k))))
        return {"self": b, "trade": t}

    def tfields(self, c, old=True):
        return trade_fields(c.heap(old), c.trade)

    def requires(self, c):
        I = c.I
        out = broker_requires(I, c.self)
        v = SymBrokerView(I, c.self)
        t = trade_fields(I.heap, c.trade)
        k = t["contract"].t
        dq = t["quantity"].v
        acqp = z3.If(dq > 0, v.ask(k), v.bid(k))
        out += [
            Cl("trade_contract", z3.And(z3.Not(is_cash(k)), k != v.cash, static_key(k))),
            Cl("trade_quantity", z3.And(z3.Not(t["quantity"].nan), dq != 0)),
            Cl("valid_quote", valid_quote(v, k)),
            # trades are built from the exchange's current quotes (the rebalancing path)
            Cl("trade_priced_at_book", z3.And(z3.Not(t["acq_price"].nan), t["acq_price"].v == acqp)),
            Cl("trade_cost_of_cash", z3.And(z3.Not(t["cost_of_cash"].nan), t["cost_of_cash"].v == acqp * dq * mult(k) * cr(k))),
            Cl("trade_commission", z3.And(z3.Not(t["cost_of_commissions"].nan), t["cost_of_commissions"].v >= 0)),
        ]
        return out

    def splits(self, c):
        I = c.I
        v = SymBrokerView(I, c.self)
        t = trade_fields(I.heap, c.trade)
        k, dq = t["contract"].t, t["quantity"].v
        q0 = v.qty(k)
        q1 = q0 + dq
        return [mr(k) == 0, v.has_last(k), dq > 0, q0 > 0, q0 < 0, q1 > 0, q1 < 0, absr(q1) < v.eps]

    def modifies(self, c):
        q, m, l = bmaps(c.I.heap, c.self)
        return [("obj", q), ("obj", m), ("obj", l)]

    def delta(self, c):
        vo = SymBrokerView(c.I, c.self, c.old)
        t = self.tfields(c)
        k, dq = t["contract"].t, t["quantity"].v
        q0 = vo.qty(k)
        q1 = q0 + dq
        return -t["cost_of_commissions"].v + mult(k) * (q1 * liq(vo, k, q1) - q0 * liq(vo, k, q0) - dq * t["acq_price"].v)

    def hints(self, c):
        vo = SymBrokerView(c.I, c.self, c.old)
        t = self.tfields(c)
        k, dq = t["contract"].t, t["quantity"].v
        cl = SumDelta("nlv_delta", EquityFam(c.self), [k, vo.cash], self.delta(c), old=c.old, new=c.new)
        cl.known = [("D3", known_D3(vo, k, dq))]
        return [cl]

    def ensures(self, c):
        I = c.I
        vo, vn = SymBrokerView(I, c.self, c.old), SymBrokerView(I, c.self, c.new)
        t = self.tfields(c)
        k, dq = t["contract"].t, t["quantity"].v
        q1 = vo.qty(k) + dq
        fam = EquityFam(c.self)
        dust = z3.And(q1 != 0, absr(q1) < vo.eps)
        nlv = Cl("nlv_delta_total", z3.Implies(z3.Not(dust),
                                               ghost.gsum(I, fam, c.new) == ghost.gsum(I, fam, c.old) + self.delta(c)))
        return [
            nlv,
            Cl("position", vn.qty(k) == z3.If(absr(q1) < vo.eps, 0, q1)),
            Cl("margin_at_target", z3.And(vn.margin(k) == target(vn, k), vn.margin(k) >= 0,
                                          z3.Implies(mr(k) != 0, z3.And(vn.has_last(k), vn.last(k) == liq(vn, k, vn.qty(k)))))),
            PW("frame_others", lambda x: z3.Implies(z3.And(x != k, x != vo.cash), z3.And(
                vn.qty(x) == vo.qty(x), vn.margin(x) == vo.margin(x), vn.has_last(x) == vo.has_last(x),
                z3.Implies(vo.has_last(x), vn.last(x) == vo.last(x))))),
            PW("wf_preserved", lambda x: wf_at(vn, x)),
            Cl("cash_ok", cash_ok(vn)),
            PW("static_keys", lambda x: z3.Implies(z3.Or(vn.in_qty(x), vn.in_margins(x), vn.has_last(x)), static_key(x))),
        ]

    def perturbed(self, c):
        vo = SymBrokerView(c.I, c.self, c.old)
        t = self.tfields(c)
        k = t["contract"].t
        fam = EquityFam(c.self)
        return [
            SumDelta("nlv_delta_without_commission", fam, [k, vo.cash], self.delta(c) + t["cost_of_commissions"].v + 1,
                     old=c.old, new=c.new),
            SumDelta("nlv_delta_at_wrong_side", fam, [k, vo.cash],
                     self.delta(c) + mult(k) * t["quantity"].v * (vo.ask(k) - vo.bid(k)) + z3.If(vo.ask(k) == vo.bid(k), 1, 0),
                     old=c.old, new=c.new),
        ]

    def witness(self, c):
        I = c.I
        v = SymBrokerView(I, c.self)
        t = trade_fields(I.heap, c.trade)
        k = t["contract"].t
        return {"q0": v.qty(k), "dq": t["quantity"].v, "bid": v.bid(k), "ask": v.ask(k), "mult": mult(k), "mr": mr(k),
                "cr": cr(k), "margin0": v.margin(k), "has_last": v.has_last(k), "last0": v.last(k),
                "cash0": v.qty(v.cash), "eps": v.eps, "commission": t["cost_of_commissions"].v}


# =========================================================================== holdings_values
def missing_liq(v, k):
    """a non-zero position whose liquidation-side quote is missing (bid for longs, ask for shorts)"""
    q = v.qty(k)
    return z3.And(v.in_qty(k), q != 0, z3.If(q >= 0, v.bid_nan(k), v.ask_nan(k)))


def hv_value(v, k, kind):
    q = v.qty(k)
    lp = z3.If(q >= 0, v.bid(k), v.ask(k))
    if kind == "notional":
        return z3.If(q == 0, 0, q * lp * mult(k))
    # C05: liquidation value of fully-paid positions + posted margins (the multiplier belongs to the value)
    return z3.If(q == 0, 0, cr(k) * mult(k) * q * lp + v.margin(k))


@register
class HoldingsValues(Contract):
    """C13: a non-zero position without a liquidation-side quote raises; flat positions never need a quote."""
    relpath, qual = REL, "Broker.holdings_values"
    props = ("C01", "C05", "C13")

    def pre_state(self, I):
        b = mk_broker(I)
        kind = ["notional", "liquidation"][I.choice(2)]
        return {"self": b, "kind": kind}

    def requires(self, c):
        return broker_requires(c.I, c.self) + [Cl("kind", c.kind in ("notional", "liquidation"))]

    def any_missing(self, c):
        vo = SymBrokerView(c.I, c.self, c.old)
        return exists_key(c.I, "missing_liq@%s" % ghost.heap_tag(c.I, c.old), lambda k: missing_liq(vo, k))

    def raises(self, c):
        return {"ValueError": {"when": self.any_missing(c)}}

    def modifies(self, c):
        return []          # only defaultdict key insertion (value 0.0), which no spec function observes

    def witness(self, c):
        I = c.I
        v = SymBrokerView(I, c.self)
        k = I.skolem()
        return {"q0": v.qty(k), "bid": v.bid(k), "ask": v.ask(k), "mult": mult(k), "mr": mr(k), "cr": cr(k),
                "margin0": v.margin(k), "has_last": v.has_last(k), "last0": v.last(k), "cash0": v.qty(v.cash),
                "eps": v.eps, "skolem_is_cash": k == v.cash}

    def result(self, c):
        I = c.I
        vo = SymBrokerView(I, c.self, c.old)
        kind = c.kind
        return I.new_map(lambda k: Fl(hv_value(vo, k, kind)), lambda k: vo.in_qty(k), "float", "defaultdict")

    def ensures(self, c):
        I = c.I
        vo = SymBrokerView(I, c.self, c.old)
        r = c.result
        kind = c.kind
        if not (isinstance(r, Obj) and r.kind == "map"):
            return [Cl("returns_map", FALSE)]
        return [PW("values", lambda k: z3.And(
            c.dom(r, k) == vo.in_qty(k),
            z3.Implies(vo.in_qty(k), z3.And(z3.Not(c.m(r, k).nan), c.m(r, k).v == hv_value(vo, k, kind)))))]


@register
class HoldingsValuesLoop(LoopContract):
    qual, ordinal = "Broker.holdings_values", 0
    locals_ = ()

    def havoc(self, L):
        return [("obj", L.env["holdings_values"])]

    def inv(self, L):
        I = L.I
        b = L.env["self"]
        ve = SymBrokerView(I, b, L.entry)
        hv = L.env["holdings_values"]
        kind = L.env["kind"]
        done = L.done
        return [
            PW("filled", lambda k: z3.And(
                L.mdom(hv, k) == z3.And(ve.in_qty(k), done(k)),
                z3.Implies(z3.And(ve.in_qty(k), done(k)),
                           z3.And(z3.Not(L.m(hv, k).nan), L.m(hv, k).v == hv_value(ve, k, kind))),
                z3.Implies(done(k), z3.Not(missing_liq(ve, k))))),
        ]


# =========================================================================== net_liquidation_value
@register
class NetLiquidationValue(Contract):
    """C05/C01: reported NLV = cash + posted margins + liquidation value of fully-paid positions = equity(B);
    C09: valuation signals end-of-episode instead of returning a non-positive NLV unless asked not to."""
    relpath, qual = REL, "Broker.net_liquidation_value"
    props = ("C01", "C05", "C09", "C13")

    def pre_state(self, I):
        b = mk_broker(I)
        rib = [True, False][I.choice(2)]
        return {"self": b, "raise_if_broke": rib}

    def requires(self, c):
        return broker_requires(c.I, c.self)

    def any_missing(self, c):
        vo = SymBrokerView(c.I, c.self, c.old)
        return exists_key(c.I, "missing_liq@%s" % ghost.heap_tag(c.I, c.old), lambda k: missing_liq(vo, k))

    def raises(self, c):
        I = c.I
        fam = EquityFam(c.self)
        mods = self.modifies(c)
        vo = SymBrokerView(I, c.self, c.old)
        def post():
            vn = SymBrokerView(I, c.self, I.snapshot())
            return [PW("positions_unchanged", lambda k: z3.Implies(k != vo.cash, vn.qty(k) == vo.qty(k))),
                    Cl("equity_preserved", ghost.gsum(I, fam, None) == ghost.gsum(I, fam, c.old)),
                    PW("wf_preserved", lambda k: wf_at(vn, k)), Cl("cash_ok", cash_ok(vn)),
                    PW("static_keys", lambda k: z3.Implies(z3.Or(vn.in_qty(k), vn.in_margins(k), vn.has_last(k)), static_key(k)))]
        out = {"ValueError": {"when": self.any_missing(c), "modifies": mods, "post": LazyList(post)}}
        if c.raise_if_broke is True:
            out["EndOfEpisodeError"] = {"when": z3.And(z3.Not(self.any_missing(c)), ghost.gsum(I, fam, c.old) <= 0),
                                        "modifies": mods, "post": LazyList(lambda: post() + self.post_state(c))}
        elif c.raise_if_broke is not False:
            raise Unsupported("symbolic raise_if_broke")
        return out

    def modifies(self, c):
        q, m, l = bmaps(c.I.heap, c.self)
        return [("obj", q), ("obj", m), ("obj", l)]

    def result(self, c):
        return Fl(ghost.gsum(c.I, EquityFam(c.self), c.old))

    def post_state(self, c):
        I = c.I
        vo, vn = SymBrokerView(I, c.self, c.old), SymBrokerView(I, c.self, I.snapshot())
        fam = EquityFam(c.self)
        return [
            PW("margin_at_target", mtm_pointwise(vo, vn, lambda k: vo.in_margins(k))),
            Cl("equity_preserved", ghost.gsum(I, fam, None) == ghost.gsum(I, fam, c.old)),
            PW("wf_preserved", lambda k: wf_at(vn, k)),
            Cl("cash_ok", cash_ok(vn)),
            PW("static_keys", lambda k: z3.Implies(z3.Or(vn.in_qty(k), vn.in_margins(k), vn.has_last(k)), static_key(k))),
            # C05: at a valuation nothing is pending: every margined position is marked at its liquidation price
            PW("nothing_pending", lambda k: z3.Implies(z3.Not(missing_liq(vo, k)), pend(vn, k) == 0)),
        ]

    def hints(self, c):
        if c.callsite:
            return []
        I = c.I
        # the value computed by `sum(holdings_values.values())` (a ghost sum) is the equity of the marked account
        ent = [(fam, snap) for (c_, fam, snap) in I.gsums.values() if isinstance(fam, ghost.MapFamily)]
        if not ent:
            return []          # the path ended before the sum was taken (missing quote)
        fam, snap = ent[-1]
        return [SumCongr("sum_of_values_is_equity", fam, snap, EquityFam(c.self), c.new)]

    def ensures(self, c):
        I = c.I
        r = lift_fl(c.result)
        fam = EquityFam(c.self)
        out = [Cl("equals_equity", z3.And(z3.Not(r.nan), r.v == ghost.gsum(I, fam, c.old)))]
        if c.raise_if_broke is True:
            out.append(Cl("positive", r.v > 0))
        return out + self.post_state(c)

    def witness(self, c):
        return broker_witness(c)


class LazyList:
    """clauses built when iterated (they read the heap at that moment)"""

    def __init__(self, fn):
        self.fn = fn

    def __iter__(self):
        return iter(self.fn())


# =========================================================================== accrued_interest (C06)
from pyvc.models import pow_


def seconds_in_year(I):
    from pyvc import front, models
    v = models.global_name(I, REL, "SECONDS_IN_YEAR") if I.frames else None
    return v


def interest_formula(amount, r, m, y):
    """C06: idle cash grows at (rate - markup), borrowed cash is charged at (rate + markup), compounded,
    pro-rated by y = elapsed seconds / (365 days); positive balances are never charged."""
    pos = amount * (pow_(1 + r - m, y) - 1)
    neg = amount * (pow_(1 + r + m, y) - 1)
    return z3.If(amount > 0, z3.If(pos < 0, 0, pos), z3.If(amount < 0, neg, 0))


def pow_axioms(b, y):
    """the instantiated real-exponent axioms the engine adds for each `**` site (A3), for spec-side terms"""
    t = pow_(b, y)
    return z3.And(z3.Implies(y == 0, t == 1), z3.Implies(b > 0, t > 0), z3.Implies(z3.And(b >= 1, y >= 0), t >= 1),
                  z3.Implies(z3.And(b > 0, b <= 1, y >= 0), t <= 1), z3.Implies(b == 1, t == 1))


@register
class AccruedInterest(Contract):
    relpath, qual = REL, "Broker.accrued_interest"
    props = ("C06", "C01")
    SECONDS = 365 * 24 * 60 * 60

    def pre_state(self, I):
        has_last = I.choice(2) == 1
        b = mk_broker(I, last_accrual="sym" if has_last else "none")
        accrue = [False, True][I.choice(2)]
        return {"self": b, "now": I.fl("now"), "accrue": accrue}

    def rate_key(self, c):
        fees = c.I.heap[c.self.oid]["fees"]
        return c.I.heap[fees.oid]["interest_rate"].t, c.I.heap[fees.oid]["markup"].v

    def requires(self, c):
        I = c.I
        v = SymBrokerView(I, c.self)
        rk, mk = self.rate_key(c)
        r = (v.bid(rk) + v.ask(rk)) / 2
        return [
            Cl("cash_ok", cash_ok(v)),
            Cl("rate_quoted", z3.And(z3.Not(v.bid_nan(rk)), z3.Not(v.ask_nan(rk)), static_key(rk), rk != v.cash)),
            Cl("markup", z3.And(mk >= 0, 1 + r - mk > 0)),      # the property's quantifier
            Cl("now_is_a_time", z3.Not(lift_fl(c.now).nan)),
            PW("sh_idempotent", lambda k: sh(sh(k)) == sh(k)),
        ] + self.pow_facts(c)

    def pow_facts(self, c):
        # AXIOM real-exponent laws of `**` (A3), instantiated at the two spec-side sites
        l0 = c.I.heap[c.self.oid]["_last_accrual"]
        now = lift_fl(c.now).v
        y = (now - (now if l0 is None else l0.v)) / self.SECONDS
        v = SymBrokerView(c.I, c.self)
        rk, mk = self.rate_key(c)
        r = (v.bid(rk) + v.ask(rk)) / 2
        return [Cl("pow_axioms", z3.And(pow_axioms(1 + r - mk, y), pow_axioms(1 + r + mk, y)))]

    def last0(self, c):
        return c.old[c.self.oid]["_last_accrual"]

    def raises(self, c):
        l0 = self.last0(c)
        when = FALSE if l0 is None else lift_fl(c.now).v < l0.v
        return {"ValueError": {"when": when, "post": []}}        # nothing modified (frame check)

    def amount(self, c):
        I = c.I
        vo = SymBrokerView(I, c.self, c.old)
        rk, mk = self.rate_key(c)
        l0 = self.last0(c)
        now = lift_fl(c.now).v
        y = (now - (now if l0 is None else l0.v)) / self.SECONDS
        r = (vo.bid(rk) + vo.ask(rk)) / 2
        return interest_formula(vo.qty(vo.cash), r, mk, y), y, r, mk

    def modifies(self, c):
        q, m, l = bmaps(c.I.heap, c.self)
        return [("entry", q, c.I.heap[c.self.oid]["base_currency"].t), ("field", c.self, "_last_accrual")]

    def havoc(self, c):
        I = c.I
        vo = SymBrokerView(I, c.self, c.old)
        q, m, l = bmaps(I.heap, c.self)
        amt, y, r, mk = self.amount(c)
        if c.accrue is True:
            I.mset(q, vo.cash, Fl(vo.qty(vo.cash) + amt))
            I.fset(c.self, "_last_accrual", c.now)
        elif c.accrue is False:
            if self.last0(c) is None:
                I.fset(c.self, "_last_accrual", c.now)       # recorded finding D11: a query starts the clock
        else:
            raise Unsupported("symbolic `accrue`")

    def result(self, c):
        return Fl(self.amount(c)[0])

    def hints(self, c):
        if c.accrue is not True or c.exc is not None:
            return []
        vo = SymBrokerView(c.I, c.self, c.old)
        return [SumDelta("equity_plus_interest", EquityFam(c.self), [vo.cash], self.amount(c)[0], old=c.old, new=c.new)]

    def ensures(self, c):
        I = c.I
        vo, vn = SymBrokerView(I, c.self, c.old), SymBrokerView(I, c.self, c.new)
        amt, y, r, mk = self.amount(c)
        res = lift_fl(c.result)
        l0 = self.last0(c)
        l1 = c.new[c.self.oid]["_last_accrual"]
        now = lift_fl(c.now).v
        out = [
            Cl("formula", z3.And(z3.Not(res.nan), res.v == amt)),
            Cl("never_charges_positive", z3.Implies(vo.qty(vo.cash) > 0, res.v >= 0)),
            Cl("same_instant_zero", z3.Implies(y == 0, res.v == 0)),
            PW("only_cash_moves", lambda k: z3.And(z3.Implies(k != vo.cash, vn.qty(k) == vo.qty(k)),
                                                   vn.margin(k) == vo.margin(k))),
        ]
        if c.accrue is True:
            out.append(Cl("credited_once", z3.And(vn.qty(vo.cash) == vo.qty(vo.cash) + res.v,
                                                  isinstance(l1, Fl) and l1.v == now)))
        else:
            same_clock = (l1 is None) if l0 is None else (isinstance(l1, Fl) and l1.v == l0.v)
            q = Cl("query_changes_nothing", z3.And(vn.qty(vo.cash) == vo.qty(vo.cash),
                                                   z3.BoolVal(same_clock) if isinstance(same_clock, bool) else same_clock))
            q.known = [("D11", z3.BoolVal(l0 is None))]
            out.append(q)
        return out

    def perturbed(self, c):
        amt, y, r, mk = self.amount(c)
        res = lift_fl(c.result)
        vo = SymBrokerView(c.I, c.self, c.old)
        wrong = interest_formula(vo.qty(vo.cash), r, -mk, y)      # markup with the wrong sign
        return [Cl("formula_with_markup_sign_flipped", z3.Or(res.v == wrong + z3.If(mk == 0, 1, 0), y == 0, vo.qty(vo.cash) == 0))]

    def witness(self, c):
        I = c.I
        v = SymBrokerView(I, c.self)
        rk, mk = self.rate_key(c)
        l0 = I.heap[c.self.oid]["_last_accrual"]
        w = {"cash0": v.qty(v.cash), "rate_bid": v.bid(rk), "rate_ask": v.ask(rk), "markup": mk, "now": lift_fl(c.now).v}
        if l0 is not None:
            w["last_accrual"] = l0.v
        return w


# =========================================================================== holdings_weights / context (C05)
class _Valuation(Contract):
    """shared: raises / modifies / post-state are those of net_liquidation_value(raise_if_broke=True)"""

    def witness(self, c):
        return broker_witness(c)

    def nlv(self):
        from . import REGISTRY
        return REGISTRY["Broker.net_liquidation_value"]

    def bctx(self, c):
        from pyvc.contract import Ctx
        b = Ctx(c.I, {"self": c.self, "raise_if_broke": True})
        b.old, b.new, b.callsite = c.old, c.new, c.callsite
        return b

    def pre_state(self, I):
        return {"self": mk_broker(I)}

    def requires(self, c):
        return broker_requires(c.I, c.self)

    def raises(self, c):
        return self.nlv().raises(self.bctx(c))

    def modifies(self, c):
        return self.nlv().modifies(self.bctx(c))


def weight_of(vn, E, k):
    """C05: reported weight = position x liquidation price x multiplier / NLV"""
    return hv_value(vn, k, "notional") / E


@register
class HoldingsWeights(_Valuation):
    relpath, qual = REL, "Broker.holdings_weights"
    props = ("C05", "C03")

    def result(self, c):
        I = c.I
        vn = SymBrokerView(I, c.self, I.snapshot())
        E = ghost.gsum(I, EquityFam(c.self), c.old)
        return I.new_map(lambda k: Fl(weight_of(vn, E, k)), lambda k: vn.in_qty(k), None, "dict")

    def ensures(self, c):
        I = c.I
        r = c.result
        if not (isinstance(r, Obj) and r.kind == "map"):
            return [Cl("returns_map", FALSE)]
        vn = SymBrokerView(I, c.self, c.new)
        E = ghost.gsum(I, EquityFam(c.self), c.old)
        return [PW("ratio", lambda k: z3.And(c.dom(r, k) == vn.in_qty(k), z3.Implies(vn.in_qty(k), z3.And(
            z3.Not(c.m(r, k).nan), c.m(r, k).v == weight_of(vn, E, k)))))] + self.nlv().post_state(self.bctx(c))


def context_fields(I, vn, E, heap=None):
    """the snapshot Broker.context() reports, as key->value functions of the (marked) account state"""
    return {
        "weights": (lambda k: Fl(weight_of(vn, E, k)), lambda k: vn.in_qty(k)),
        "values": (lambda k: Fl(hv_value(vn, k, "notional")), lambda k: vn.in_qty(k)),
        "nr_contracts": (lambda k: Fl(vn.qty(k)), lambda k: vn.in_qty(k)),
        "margins": (lambda k: Fl(vn.margin(k)), lambda k: vn.in_margins(k)),
    }


@register
class BrokerContext(_Valuation):
    """C05/C07: the snapshot holds the values the account actually has at that moment"""
    relpath, qual = REL, "Broker.context"
    props = ("C05", "C07", "C09", "C13")

    def result(self, c):
        I = c.I
        vn = SymBrokerView(I, c.self, I.snapshot())
        E = ghost.gsum(I, EquityFam(c.self), c.old)
        f = {"nlv": Fl(E)}
        for n, (get, dom) in context_fields(I, vn, E).items():
            f[n] = I.new_map(get, dom, "float" if n in ("values",) else None, "dict")
        return I.new_rec("Context", **f)

    def ensures(self, c):
        I = c.I
        r = c.result
        if not (isinstance(r, Obj) and r.kind == "rec" and r.cls == "Context"):
            return [Cl("returns_context", FALSE)]
        vn = SymBrokerView(I, c.self, c.new)
        E = ghost.gsum(I, EquityFam(c.self), c.old)
        h = c.heap()
        rf = h[r.oid]
        out = [Cl("nlv", z3.And(z3.Not(lift_fl(rf["nlv"]).nan), lift_fl(rf["nlv"]).v == E, E > 0))]
        for n, (get, dom) in context_fields(I, vn, E).items():
            m = rf.get(n)
            if not (isinstance(m, Obj) and m.kind == "map"):
                out.append(Cl("field[%s]" % n, FALSE))
                continue
            out.append(PW("snapshot[%s]" % n, (lambda m, get, dom: lambda k: z3.And(
                h[m.oid]["dom"](k) == dom(k),
                z3.Implies(dom(k), z3.And(z3.Not(h[m.oid]["get"](k).nan), h[m.oid]["get"](k).v == get(k).v))))(m, get, dom)))
        return out + self.nlv().post_state(self.bctx(c))


# =========================================================================== Broker.__init__ (the invariants are established)
@register
class BrokerInit(Contract):
    """C01/C05: a new account holds exactly the deposit as cash, no position, no margin, no mark: WF(B) and the ledger identity
    (equity = deposit once cash is quoted at 1) are established by construction"""
    relpath, qual = REL, "Broker.__init__"
    props = ("C01", "C05")

    def pre_state(self, I):
        return {"self": I.new_rec("Broker"), "exchange": mk_exchange(I), "base_currency": KeyV(I.key("cash")), "deposit": I.fl("deposit"),
                "fees": mk_fees(I), "epsilon": I.fl("eps")}

    def requires(self, c):
        k = c.base_currency.t
        return [Cl("base_currency_is_cash", z3.And(is_cash(k), static_key(k), mr(k) == 0, cr(k) == 1, mult(k) == 1)),
                PW("one_cash_key", lambda x: z3.Implies(is_cash(x), x == k))]

    def modifies(self, c):
        return [("obj", c.self)]

    def havoc(self, c):
        """functional post-state at call sites: exactly the fields the constructor assigns (the ensures below are proved of the body)"""
        I = c.I
        k = c.base_currency.t
        dep = lift_fl(c.deposit)
        I.add_key(k)
        q = I.new_map(lambda x: Fl(z3.If(x == k, dep.v, z3.RealVal(0)), z3.And(x == k, dep.nan)), lambda x: x == k, "float", "defaultdict")
        m = I.new_map(lambda x: Fl(z3.RealVal(0)), lambda x: FALSE, "float", "defaultdict")
        l = I.new_map(lambda x: Fl(z3.RealVal(0)), lambda x: FALSE, None, "dict")
        tr = I.new_rec("TrackRecord", _has_time=lambda x: FALSE, _n=In(0), _last_record=None)
        for n, v in (("exchange", c.exchange), ("base_currency", c.base_currency), ("fees", c.fees), ("_epsilon", c.epsilon),
                     ("_holdings_margins", m), ("_holdings_quantity", q), ("_initial_deposit", c.deposit), ("_last_accrual", None),
                     ("_last_marking_to_market_price", l), ("track_record", tr)):
            I.fset(c.self, n, v)

    def ensures(self, c):
        I = c.I
        h = c.heap()
        f = h[c.self.oid]
        need = ("_holdings_quantity", "_holdings_margins", "_last_marking_to_market_price", "exchange", "base_currency", "fees", "_epsilon",
                "_last_accrual", "track_record")
        if any(n not in f for n in need):
            return [Cl("all_fields_set", FALSE)]
        v = SymBrokerView(I, c.self, h)
        dep = lift_fl(c.deposit).v
        return [
            Cl("deposit_is_cash", z3.And(v.qty(v.cash) == dep, v.in_qty(v.cash))),
            PW("no_positions_margins_or_marks", lambda k: z3.And(z3.Implies(k != v.cash, z3.And(v.qty(k) == 0, z3.Not(v.in_qty(k)))),
                                                             v.margin(k) == 0, z3.Not(v.in_margins(k)), z3.Not(v.has_last(k)))),
            PW("wf_established", lambda k: wf_at(v, k)),
            Cl("clock_not_started", z3.BoolVal(f["_last_accrual"] is None)),
            Cl("wiring", z3.And(z3.BoolVal(f["exchange"] is c.exchange or getattr(f["exchange"], "oid", None) == c.exchange.oid),
                                f["base_currency"].t == c.base_currency.t, lift_fl(f["_epsilon"]).v == lift_fl(c.epsilon).v)),
        ]
