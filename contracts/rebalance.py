"""Contract for Broker.rebalance (C01 ledger, C03 target reached, C06 accrue-once, C07 record, C09, C13)."""
import z3
from pyvc.vals import *
from pyvc import ghost
from pyvc.engine import Unsupported
from pyvc.contract import Contract, Cl, PW, SumDelta, SumZero, Ctx
from pyvc.loops import LoopContract
from . import register, REGISTRY
from ._spec import *
from .broker import bmaps, missing_liq, EquityFam, LazyList, trade_fields, interest_formula, known_D3
from .allocation import as_map, alloc_wf
from .rebalancing import TradeSpec, mk_rebalancing, TRADE_FIELDS

REL = "tradingenv/broker/broker.py"


# --------------------------------------------------------------------------- track record (ASSUMED contract)
@register
class Checkpoint(Contract):
    """ASSUMED contract of TrackRecord._checkpoint (its body - python list/dict bookkeeping keyed by datetime - is
    not verified deductively; the bounded shell of C07 exercises it): appends exactly one record, rejects a
    duplicated timestamp."""
    relpath, qual = "tradingenv/broker/track_record.py", "TrackRecord._checkpoint"
    assumed = True
    props = ("C07",)

    def raises(self, c):
        tr = c.heap(True)[c.self.oid]
        t = lift_fl(c.heap(True)[c.rebalancing.oid]["time"]).v
        return {"ValueError": {"when": tr["_has_time"](t)}}

    def modifies(self, c):
        return [("obj", c.self)]

    def havoc(self, c):
        I = c.I
        tr = c.old[c.self.oid]
        t = lift_fl(c.old[c.rebalancing.oid]["time"]).v
        old_has = tr["_has_time"]
        I.fset(c.self, "_has_time", lambda x: z3.Or(old_has(x), x == t))
        I.fset(c.self, "_n", In(tr["_n"].v + 1))
        I.fset(c.self, "_last_record", c.rebalancing)
        I.trace.append(("checkpoint", c.rebalancing.oid))


def mk_track_record(I):
    has = I.func("tr_has_time", RealS, BoolS)
    n = I.int("tr_len")
    I.assume(n >= 0)
    return I.new_rec("TrackRecord", _has_time=lambda x: has(x), _n=In(n), _last_record=None)


# --------------------------------------------------------------------------- ledger family
class LedgerFam(ghost.Family):
    """SUM over the trades executed so far of their NLV effect (C01): -commission + mult*(q1*liq(q1) - q0*liq(q0) - dq*acq)"""

    def __init__(self, spec_state, trades_dom, trades_col, done, tag):
        self.v, self.tdom, self.tcol, self.done, self.name = spec_state, trades_dom, trades_col, done, "ledger[%s]" % tag

    def delta(self, k):
        v = self.v
        dq = lift_fl(self.tcol["quantity"](k)).v
        acqp = lift_fl(self.tcol["acq_price"](k)).v
        comm = lift_fl(self.tcol["cost_of_commissions"](k)).v
        q0 = v.qty(k)
        q1 = q0 + dq
        return -comm + mult(k) * (q1 * liq(v, k, q1) - q0 * liq(v, k, q0) - dq * acqp)

    def term(self, I, heap, k):
        return z3.If(z3.And(self.done(k), self.tdom(k)), self.delta(k), 0)

    def deps(self, I, heap):
        # everything the terms read: the account state the deltas are computed from, the trades, the done-set
        out = [self.done, self.tdom]
        if self.tcol is not None:
            out += [self.tcol[f] for f in ("quantity", "acq_price", "cost_of_commissions")]
        return out + EquityFam(self.v.b).deps(I, self.v.h)


def trades_view(heap, trades):
    p = heap[trades.oid]
    if "items" in p and not p["items"]:
        return (lambda k: FALSE), None
    return p["dom"], p["cols"]


def dust(v, tcol, k):
    q1 = v.qty(k) + lift_fl(tcol["quantity"](k)).v
    return z3.And(q1 != 0, absr(q1) < v.eps)


def traded_state(ve, vc, tdom, tcol, done):
    """pointwise state of the account while the trades of a rebalance are being executed"""
    def f(k):
        tr = z3.And(done(k), tdom(k))
        q1 = ve.qty(k) + (lift_fl(tcol["quantity"](k)).v if tcol is not None else 0)
        return z3.And(
            z3.Implies(tr, z3.And(vc.qty(k) == z3.If(absr(q1) < ve.eps, 0, q1), vc.margin(k) == target(vc, k),
                                  z3.Implies(mr(k) != 0, z3.And(vc.has_last(k), vc.last(k) == liq(vc, k, vc.qty(k)))))),
            z3.Implies(z3.And(z3.Not(tr), k != ve.cash), z3.And(
                vc.qty(k) == ve.qty(k), vc.margin(k) == ve.margin(k), vc.has_last(k) == ve.has_last(k),
                z3.Implies(ve.has_last(k), vc.last(k) == ve.last(k)))),
        )
    return f


@register
class TransactLoop(LoopContract):
    qual, ordinal = "Broker.rebalance", 0

    def havoc(self, L):
        b = L.env["self"]
        q, m, l = bmaps(L.I.heap, b)
        return [("obj", q), ("obj", m), ("obj", l)]

    def parts(self, L, done):
        I = L.I
        b = L.env["self"]
        rb = L.env["rebalancing"]
        ve, vc = SymBrokerView(I, b, L.entry), SymBrokerView(I, b, L.cur)
        tdom, tcol = trades_view(L.entry, L.entry[rb.oid]["trades"])
        fam = LedgerFam(ve, tdom, tcol, done, "loop")
        return b, ve, vc, tdom, tcol, fam

    def inv(self, L):
        I = L.I
        b, ve, vc, tdom, tcol, fam = self.parts(L, L.done)
        eq = EquityFam(b)
        out = [
            PW("executed", traded_state(ve, vc, tdom, tcol, L.done)),
            PW("wf", lambda k: wf_at(vc, k)),
            Cl("cash_ok", cash_ok(vc)),
            PW("static_keys", lambda k: z3.Implies(z3.Or(vc.in_qty(k), vc.in_margins(k), vc.has_last(k)), static_key(k))),
        ]
        if tcol is not None:
            anyd = exists_key(I, "dust_trade@%d" % id(tdom), lambda k: z3.And(tdom(k), dust(ve, tcol, k)))
            out.append(Cl("ledger", z3.Or(anyd, ghost.gsum(I, eq, L.cur) == ghost.gsum(I, eq, L.entry) + ghost.gsum(I, fam, L.entry))))
            I.__dict__.setdefault("ghost_store", {})["rebalance_loop"] = (L.entry, fam, anyd)
        else:
            out.append(Cl("ledger", ghost.gsum(I, eq, L.cur) == ghost.gsum(I, eq, L.entry)))
        return out

    def init_hints(self, L):
        b, ve, vc, tdom, tcol, fam = self.parts(L, L.done)
        return [SumZero("ledger_empty", fam, L.entry)]

    def step_hints(self, L, k, start):
        # L.done is done+{k}; the family over `done` alone is the one assumed at the start of the iteration
        I = L.I
        b, ve, vc, tdom, tcol, fam_new = self.parts(L, L.done)
        prev = getattr(L, "done_before", None)
        fam_old = LedgerFam(ve, tdom, tcol, prev, "loop")
        return [SumDelta("ledger_step", fam_old, [k], fam_new.delta(k), old=L.entry, new=L.entry, fam_new=fam_new)]


# --------------------------------------------------------------------------- Broker.rebalance
@register
class Rebalance(Contract):
    relpath, qual = REL, "Broker.rebalance"
    props = ("C01", "C03", "C06", "C07", "C09", "C13")
    shards = [[a, b, c, d] for a in (0, 1) for b in (0, 1) for c in (0, 1) for d in (0, 1)]     # last_accrual x measure x fractional x first body decision

    def pre_state(self, I):
        has_last = I.choice(2) == 1
        measure = ["weight", "nr-contracts"][I.choice(2)]
        fractional = [True, False][I.choice(2)]
        b = mk_broker(I, last_accrual="sym" if has_last else "none")
        I.fset(b, "track_record", mk_track_record(I))
        return {"self": b, "rebalancing": mk_rebalancing(I, measure, True, fractional)}

    # contexts of the callee contracts, for sharing their requires / formulas
    def actx(self, c):
        rb = c.I.heap[c.rebalancing.oid] if c.old is None else c.old[c.rebalancing.oid]
        a = Ctx(c.I, {"self": c.self, "now": rb["time"], "accrue": True})
        a.old, a.new, a.callsite = c.old, c.new, c.callsite
        return a

    def requires(self, c):
        I = c.I
        acc = REGISTRY["Broker.accrued_interest"]
        mt = REGISTRY["Rebalancing.make_trades"]
        h = I.snapshot()
        rb = h[c.rebalancing.oid]
        tr = h[h[c.self.oid]["track_record"].oid]
        out = broker_requires(I, c.self)
        out += [cl for cl in acc.requires(self.actx(c)) if cl.name not in ("cash_ok", "sh_idempotent")]
        m = Ctx(I, {"self": c.rebalancing, "broker": c.self})
        out += [cl for cl in mt.requires(m) if cl.name in ("alloc_wf", "finite_targets", "threshold_nonneg")]
        out.append(Cl("fresh_timestamp", z3.Not(tr["_has_time"](lift_fl(rb["time"]).v))))
        return out

    def interest(self, c):
        acc = REGISTRY["Broker.accrued_interest"]
        a = self.actx(c)
        return acc.amount(a)[0], acc.last0(a)

    def spec(self, c):
        """the trades to emit, computed on the pre-state with NLV after the interest accrual"""
        I = c.I
        if "spec" in c.ghost:
            return c.ghost["spec"]
        amt, l0 = self.interest(c)
        E1 = ghost.gsum(I, EquityFam(c.self), c.old) + amt
        S = TradeSpec(I, c.old, c.rebalancing, c.self)
        S.E = E1
        c.ghost["spec"] = (S, E1, amt, l0)
        return S, E1, amt, l0

    def conds(self, c):
        I = c.I
        S, E1, amt, l0 = self.spec(c)
        tag = ghost.heap_tag(I, c.old) + "rb"
        now = lift_fl(c.old[c.rebalancing.oid]["time"]).v
        early = FALSE if l0 is None else now < l0.v
        missing = exists_key(I, "missing_liq@%s" % tag, lambda k: missing_liq(S.v, k))
        nan_imb = exists_key(I, "nan_imbalance@%s" % tag, lambda k: z3.And(S.imb(k)[1], S.imb(k)[0].nan))
        rejected = exists_key(I, "trade_without_quote@%s" % tag,
                              lambda k: z3.And(S.emitted_modulo_quote(k), S.rejects(k)))
        return S, E1, early, missing, nan_imb, rejected

    def nothing_traded(self, c):
        """C13/C09: every contract position and the track record are unchanged (interest may have been credited)"""
        I = c.I
        vo = SymBrokerView(I, c.self, c.old)
        tr0 = c.old[c.old[c.self.oid]["track_record"].oid]
        def post():
            h = I.snapshot()
            vn = SymBrokerView(I, c.self, h)
            tr1 = h[h[c.self.oid]["track_record"].oid]
            return [PW("positions_unchanged", lambda k: z3.Implies(k != vo.cash, vn.qty(k) == vo.qty(k))),
                    PW("wf", lambda k: wf_at(vn, k)), Cl("cash_ok", cash_ok(vn)),
                    PW("static_keys", lambda k: z3.Implies(z3.Or(vn.in_qty(k), vn.in_margins(k), vn.has_last(k)), static_key(k))),
                    Cl("track_record_unchanged", z3.And(tr1["_n"].v == tr0["_n"].v, z3.BoolVal(tr1["_last_record"] is tr0["_last_record"]),
                                                        z3.BoolVal(tr1["_has_time"] is tr0["_has_time"]))),
                    Cl("no_trade_executed", z3.BoolVal(not any(t == ("call", "Broker.transact") for t in I.trace))),
                    Cl("accrual_clock_unchanged_or_at_the_decision", accrual_clock(h))]
        l0 = c.old[c.self.oid]["_last_accrual"]
        t = lift_fl(c.old[c.rebalancing.oid]["time"]).v
        def accrual_clock(h):
            l1 = h[c.self.oid]["_last_accrual"]
            same = z3.BoolVal(l1 is None) if l0 is None else (z3.And(z3.Not(lift_fl(l1).nan), lift_fl(l1).v == l0.v) if l1 is not None else FALSE)
            at = FALSE if l1 is None else z3.And(z3.Not(lift_fl(l1).nan), lift_fl(l1).v == t)
            return z3.Or(same, at)
        return LazyList(post)

    def raises(self, c):
        I = c.I
        S, E1, early, missing, nan_imb, rejected = self.conds(c)
        mods = self.modifies(c)
        eq = EquityFam(c.self)
        late = lambda: ghost.gsum(I, eq, None) <= 0
        def late_post():
            return self.common_post(c)
        return {
            "ValueError": {"when": z3.Or(early, z3.And(z3.Not(early), z3.Or(missing, z3.And(E1 > 0, z3.Or(nan_imb, rejected))))),
                           "modifies": mods, "post": self.nothing_traded(c)},
            "EndOfEpisodeError": [
                {"when": z3.And(z3.Not(early), z3.Not(missing), E1 <= 0), "modifies": mods, "post": self.nothing_traded(c)},
                # the account is solvent when the decision arrives but the commissions/spread of its own trades exhaust it:
                # raised by the post-trade valuation, after the trades and before the checkpoint
                {"when": late, "late": True, "modifies": mods, "post": LazyList(late_post)},
            ],
        }

    def modifies(self, c):
        q, m, l = bmaps(c.I.heap, c.self)
        tr = c.I.heap[c.self.oid]["track_record"]
        return [("obj", q), ("obj", m), ("obj", l), ("field", c.self, "_last_accrual"), ("obj", c.rebalancing), ("obj", tr)]

    def havoc(self, c):
        I = c.I
        q, m, l = bmaps(I.heap, c.self)
        from pyvc.contract import havoc_loc
        for o in (q, m, l):
            havoc_loc(I, ("obj", o))
        rb = c.old[c.rebalancing.oid]
        I.fset(c.self, "_last_accrual", rb["time"])
        S, E1, amt, l0 = self.spec(c)
        I.fset(c.rebalancing, "profit_on_idle_cash", Fl(amt))
        mt = REGISTRY["Rebalancing.make_trades"]
        mc = Ctx(I, {"self": c.rebalancing, "broker": c.self})
        mc.old = c.old
        # trades as make_trades' contract defines them, with NLV after the accrual
        cols = {"contract": lambda k: KeyV(k)}
        for f in TRADE_FIELDS[1:]:
            cols[f] = (lambda f: lambda k: Fl(S.fields(k)[f]))(f)
        trades = I.new_obj("objmap", "list", {"cols": cols, "dom": lambda k: S.emitted(k), "rowcls": "Trade", "total": False,
                                              "keyed_list": True})
        I.fset(c.rebalancing, "trades", trades)
        I.fset(c.rebalancing, "context_pre", I.new_rec("Context", nlv=Fl(E1)))
        I.trace.append(("rebalance", c.rebalancing.oid))

    def havoc_final(self, c):
        """after the post-trade valuation: context_post is recorded and exactly one checkpoint is taken"""
        I = c.I
        tr = I.heap[c.self.oid]["track_record"]
        t0 = c.old[tr.oid]
        t = lift_fl(c.old[c.rebalancing.oid]["time"]).v
        I.fset(c.rebalancing, "context_post", I.new_rec("Context", nlv=Fl(ghost.gsum(I, EquityFam(c.self), None)),
                                                        nr_contracts=I.heap[c.self.oid]["_holdings_quantity"]))
        old_has = t0["_has_time"]
        I.fset(tr, "_has_time", lambda x: z3.Or(old_has(x), x == t))
        I.fset(tr, "_n", In(t0["_n"].v + 1))
        I.fset(tr, "_last_record", c.rebalancing)

    def common_post(self, c):
        """facts that hold once the trades have been executed (with or without the final checkpoint)"""
        I = c.I
        S, E1, amt, l0 = self.spec(c)
        h = I.snapshot()
        vo, vn = SymBrokerView(I, c.self, c.old), SymBrokerView(I, c.self, h)
        rb = h[c.rebalancing.oid]
        tdom, tcol = trades_view(h, rb["trades"]) if isinstance(rb["trades"], Obj) else ((lambda k: FALSE), None)
        eq = EquityFam(c.self)
        out = [
            # C12/C03: the trades executed are exactly those of make_trades' contract
            PW("trades_are_the_imbalance", lambda k: z3.And(tdom(k) == S.emitted(k), z3.Implies(
                S.emitted(k), TRUE if tcol is None else z3.And(*[lift_fl(tcol[f](k)).v == S.fields(k)[f] for f in S.fields(k)])))),
            # C03: positions after the rebalance
            PW("positions", lambda k: z3.Implies(k != vo.cash, vn.qty(k) == z3.If(
                S.emitted(k), z3.If(absr(vo.qty(k) + S.quantity(k)) < vo.eps, 0, vo.qty(k) + S.quantity(k)), vo.qty(k)))),
            PW("wf", lambda k: wf_at(vn, k)),
            Cl("cash_ok", cash_ok(vn)),
            PW("static_keys", lambda k: z3.Implies(z3.Or(vn.in_qty(k), vn.in_margins(k), vn.has_last(k)), static_key(k))),
            Cl("accrued_once", z3.And(isinstance(h[c.self.oid]["_last_accrual"], Fl) and
                                      h[c.self.oid]["_last_accrual"].v == lift_fl(c.old[c.rebalancing.oid]["time"]).v,
                                      lift_fl(rb["profit_on_idle_cash"]).v == amt)),
        ]
        # C01/C07: ledger of the whole rebalance, over the trades it recorded:
        #   NLV after = NLV before + interest + SUM over recorded trades of [-commission + mult*(q1*liq(q1) - q0*liq(q0) - dq*acq)]
        fam, anyd = self.ledger(c, h)
        out.append(Cl("ledger", z3.Or(anyd, ghost.gsum(I, eq, h) == ghost.gsum(I, eq, c.old) + amt + ghost.gsum(I, fam, c.old))))
        return out

    def ensures(self, c):
        I = c.I
        S, E1, amt, l0 = self.spec(c)
        h = c.heap()
        rb = h[c.rebalancing.oid]
        tr0 = c.old[c.old[c.self.oid]["track_record"].oid]
        tr1 = h[h[c.self.oid]["track_record"].oid]
        vn = SymBrokerView(I, c.self, h)
        eq = EquityFam(c.self)
        out = list(self.common_post(c))
        pre, post = rb["context_pre"], rb["context_post"]
        ok_ctx = isinstance(pre, Obj) and isinstance(post, Obj)
        out += [
            # C07: the record is the account's actual values, and exactly one checkpoint is taken
            Cl("record_nlv", FALSE if not ok_ctx else z3.And(lift_fl(h[pre.oid]["nlv"]).v == E1,
                                                             lift_fl(h[post.oid]["nlv"]).v == ghost.gsum(I, eq, h), E1 > 0)),
            Cl("one_checkpoint", z3.And(tr1["_n"].v == tr0["_n"].v + 1, z3.BoolVal(tr1["_last_record"] is not None and
                                                                                    tr1["_last_record"].oid == c.rebalancing.oid),
                                        tr1["_has_time"](lift_fl(rb["time"]).v))),
        ]
        if ok_ctx:
            pq = h[post.oid]["nr_contracts"]
            out.append(PW("record_positions", lambda k: z3.Implies(vn.in_qty(k), h[pq.oid]["get"](k).v == vn.qty(k))))
        if S.weights_mode and S.fractional and not c.callsite:
            # arithmetic step of target_reached, proved without context: (w*E/p/m)*m*p == w*E
            ks = I.skolem()
            w_, p_, m_ = S.aget(ks).v, acq(S.v, ks, S.aget(ks).v), mult(ks)
            I.use_lemma(self.qual + "::lemma::target_size_cancels",
                        z3.Implies(z3.And(p_ != 0, m_ != 0), (w_ * E1 / p_ / m_) * m_ * p_ == w_ * E1))
        if S.weights_mode and S.fractional:
            # C03: position x multiplier x execution-side quote == w x NLV measured just before trading
            out.append(PW("target_reached", lambda k: z3.Implies(
                z3.And(S.margin == 0, S.adom(k), z3.Not(S.rejects(k)), z3.Not(z3.And(S.tgt(k)[0].v != 0, absr(S.tgt(k)[0].v) < vn.eps))),
                vn.qty(k) * mult(k) * acq(S.v, k, S.aget(k).v) == S.aget(k).v * E1)))
        if not S.weights_mode and S.fractional:
            out.append(PW("nr_contracts_exact", lambda k: z3.Implies(
                z3.And(S.margin == 0, S.adom(k), z3.Not(absr(S.aget(k).v) < vn.eps)), vn.qty(k) == S.aget(k).v)))
        if S.fractional:
            out.append(PW("absent_closed", lambda k: z3.Implies(
                z3.And(z3.Not(S.adom(k)), z3.Not(is_cash(k)), k != vn.cash), vn.qty(k) == 0)))
        return out

    def ledger(self, c, h):
        """the ledger family over the trades recorded in rebalancing.trades, deltas computed from the pre-state"""
        I = c.I
        if "ledger" in c.ghost:
            return c.ghost["ledger"]
        vo = SymBrokerView(I, c.self, c.old)
        tr = h[c.rebalancing.oid]["trades"]
        tdom, tcol = trades_view(h, tr) if isinstance(tr, Obj) else ((lambda k: FALSE), None)
        if tcol is None:
            tcol = {f: (lambda k: Fl(0)) for f in ("quantity", "acq_price", "cost_of_commissions")}
        fam = LedgerFam(vo, tdom, tcol, tdom, "rebalance")
        anyd = exists_key(I, "dust_trade@rb%s" % ghost.heap_tag(I, c.old), lambda k: z3.And(tdom(k), dust(vo, tcol, k)))
        c.ghost["ledger"] = (fam, anyd)
        return fam, anyd

    def hints(self, c):
        """the loop's ledger (deltas computed from the state at loop entry) is the contract's ledger (deltas computed
        from the pre-state of rebalance, same recorded trades): pointwise equal terms"""
        I = c.I
        st = I.__dict__.get("ghost_store", {}).get("rebalance_loop")
        if st is None or c.callsite:
            return []
        entry, fam_loop, anyd_loop = st
        fam, anyd = self.ledger(c, I.snapshot())
        from pyvc.contract import SumCongr
        return [SumCongr("loop_ledger_is_the_recorded_ledger", fam_loop, entry, fam, c.old),
                Cl("same_dust_condition", anyd == anyd_loop)]

    def witness(self, c):
        return {}


# --------------------------------------------------------------------------- track record: concrete contracts (verified)
from pyvc.models import sym_seq, forall_index
from pyvc.contract import PWI


class TimeMap:
    """TrackRecord._rebalancing: a dict keyed by datetime. Stores are kept as (time term, value); a lookup that hits no store
    falls back to the pre-state's designated last record (key = last stored time of the pre-state) or an arbitrary record."""

    def __init__(self, base_key=None, base_val=None):
        self.base_key, self.base_val, self.stores = base_key, base_val, []

    def py_setitem(self, I, k, v):
        self.stores.append((lift_fl(k).v, v))
        I.trace.append(("rebalancing_store", lift_fl(k).v, v))

    def py_getitem(self, I, k):
        kv = lift_fl(k).v
        for t, v in reversed(self.stores):
            if I.branch(kv == t):
                return v
        if self.base_key is not None and I.branch(kv == self.base_key):
            return self.base_val
        return Arb("earlier record")


def mk_concrete_track_record(I, with_last=True):
    n = I.int("tr?len")
    tf = I.func("tr_time", IntS, RealS)
    I.assume(n >= (1 if with_last else 0))
    times = sym_seq(I, lambda i: Tm(tf(i)), n, "list")
    last = I.new_rec("Rebalancing", time=Tm(tf(n - 1))) if with_last else None
    if not with_last:
        I.assume(n == 0)
    tr = I.new_rec("TrackRecord", _time=times, _rebalancing=TimeMap(tf(n - 1) if with_last else None, last),
                   _trading_started=I.bool("trading_started"), _nr_steps_to_burn=In(I.int("burn")))
    return tr, tf, n, last


def in_times(I, tf, n, t, tag):
    """t occurs in the recorded times (definitional)"""
    return z3.Not(forall_index(I, "not_in_times#%s" % tag, z3.IntVal(0), n, lambda i: tf(i) != t))


class CheckpointConcrete(Contract):
    """C07: exactly one entry per executed decision: _checkpoint appends the rebalancing's time and stores the record under it;
    a duplicated timestamp is rejected and nothing changes"""
    relpath, qual = "tradingenv/broker/track_record.py", "TrackRecord._checkpoint"
    props = ("C07",)

    def pre_state(self, I):
        tr, tf, n, last = mk_concrete_track_record(I, with_last=I.choice(2) == 0)
        from pyvc.loops import keyed_list
        rb = I.new_rec("Rebalancing", time=I.tm("rb_time"), trades=keyed_list(I, "Trade", ["contract", "quantity"], "rb_trades"))
        return {"self": tr, "rebalancing": rb, "_tf": tf, "_n": n}

    def dup(self, c):
        t = lift_fl(c.old[c.rebalancing.oid]["time"]).v
        return in_times(c.I, c.args["_tf"], c.args["_n"], t, "pre")

    def raises(self, c):
        return {"ValueError": {"when": self.dup(c), "post": []}}

    def modifies(self, c):
        return [("obj", c.self), ("obj", c.old[c.self.oid]["_time"])]

    def ensures(self, c):
        I = c.I
        tf, n = c.args["_tf"], c.args["_n"]
        t = lift_fl(c.old[c.rebalancing.oid]["time"]).v
        h = c.heap()
        times = h[h[c.self.oid]["_time"].oid]
        stores = [x for x in I.trace if x[0] == "rebalancing_store"]
        return [Cl("appends_one", z3.And(times["len"] == n + 1, lift_fl(times["at"](n)).v == t)),
                PWI("earlier_entries_kept", lambda i: z3.Implies(z3.And(0 <= i, i < n), lift_fl(times["at"](i)).v == tf(i))),
                Cl("record_stored_under_its_time", z3.BoolVal(len(stores) == 1 and stores[0][2] is c.rebalancing) if True else TRUE),
                Cl("stored_key", stores[0][1] == t if stores else FALSE)]


class GetItemConcrete(Contract):
    """track_record[-1] is the record stored under the most recent time; IndexError when there is none"""
    relpath, qual = "tradingenv/broker/track_record.py", "TrackRecord.__getitem__"
    props = ("C07",)

    def pre_state(self, I):
        with_last = I.choice(2) == 0
        tr, tf, n, last = mk_concrete_track_record(I, with_last=with_last)
        return {"self": tr, "item": In(-1), "_last": last, "_n": n}

    def raises(self, c):
        return {"IndexError": {"when": c.args["_n"] == 0}}

    def ensures(self, c):
        last = c.args["_last"]
        return [Cl("most_recent_record", z3.BoolVal(last is not None and c.result is last))]


Checkpoint.concrete = CheckpointConcrete()
Checkpoint.assumed = False
Checkpoint.abstraction = ("call sites use the image of the verified concrete contract under the abstraction _n = len(_time), "
                          "_has_time(t) = (t in _time), _last_record = _rebalancing[_time[-1]] (correspondence argued, A10)")
