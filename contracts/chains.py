"""Contracts for tradingenv/contracts.py: FutureChain lead-contract resolution (C11)."""
import z3
from pyvc.vals import *
from pyvc.models import sym_seq
from pyvc.contract import Contract, Cl, PW, PWI
from . import register

REL = "tradingenv/contracts.py"


def mk_chain(I):
    n = I.int("n_contracts")
    L = I.func("ltd", IntS, RealS)
    ltds = sym_seq(I, lambda i: Tm(L(i)), n, "list")
    I.heap[ltds.oid]["sorted"] = True
    fut = I.func("future", IntS, K)
    cs = sym_seq(I, lambda i: KeyV(fut(i)), n, "list")
    month = I.int("month_offset")
    ch = I.new_rec("FutureChain", _month=In(month), contracts=cs, _last_trading_dates=ltds)
    return ch, L, n, month


@register
class LeadContractIdx(Contract):
    """C11: the chain resolves to the listed contract with the earliest last-trading date strictly later than `now`,
    shifted by the configured month offset"""
    relpath, qual = REL, "FutureChain._lead_contract_idx"
    props = ("C11",)

    def pre_state(self, I):
        ch, L, n, month = mk_chain(I)
        self._g = None
        return {"self": ch, "now": I.tm("now"), "_L": L, "_n": n, "_m": month}

    def requires(self, c):
        I = c.I
        L, n = c.args["_L"], c.args["_n"]
        # C19 (complete enumeration): a chain lists its contracts in strictly increasing last-trading order
        I.assume_pwi2(lambda a, b: z3.Implies(z3.And(0 <= a, a < b, b < n), L(a) < L(b)))
        return [Cl("non_empty", n >= 1), Cl("now_given", z3.BoolVal(c.now is not None))]

    def ensures(self, c):
        L, n, m = c.args["_L"], c.args["_n"], c.args["_m"]
        r = c.result
        if not isinstance(r, In):
            return [Cl("returns_int", FALSE)]
        j = r.v - m
        now = lift_fl(c.now).v
        c.I.add_idx(j)
        c.I.add_idx(j - 1)
        return [Cl("first_strictly_later", z3.And(0 <= j, j <= n, z3.Implies(j > 0, L(j - 1) <= now), z3.Implies(j < n, now < L(j)))),
                Cl("never_past_last_trading_date", z3.Implies(z3.And(m == 0, j < n), L(r.v) > now))]

    def perturbed(self, c):
        L, n, m = c.args["_L"], c.args["_n"], c.args["_m"]
        r = c.result
        j = r.v - m
        now = lift_fl(c.now).v
        return [Cl("first_later_or_equal", z3.And(z3.Implies(j > 0, L(j - 1) < now), z3.Implies(j < n, now <= L(j))))]
