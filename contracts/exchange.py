"""Contracts for tradingenv/exchange.py: LimitOrderBook price accessors."""
import z3
from pyvc.vals import *
from pyvc.contract import Contract, Cl, PW
from . import register
from ._spec import mk_exchange

REL = "tradingenv/exchange.py"


def book_row(I):
    ex = mk_exchange(I)
    kb = I.key("kb")
    books = I.heap[ex.oid]["_books"]
    return RowRef(books, kb, "LimitOrderBook")


def bidask(c, row, old=True):
    h = c.old if old and c.old is not None else c.I.heap
    cols = h[row.m.oid]["cols"]
    return cols["bid_price"](row.k), cols["ask_price"](row.k)


def mid_of(b, a):
    return Fl((a.v + b.v) / 2, z3.simplify(z3.Or(a.nan, b.nan)))


@register
class MidPrice(Contract):
    relpath, qual = REL, "LimitOrderBook.mid_price"
    props = ("C14", "C01", "C06")

    def pre_state(self, I):
        return {"self": book_row(I)}

    def result(self, c):
        b, a = bidask(c, c.self)
        return mid_of(b, a)

    def ensures(self, c):
        b, a = bidask(c, c.self)
        r = lift_fl(c.result)
        return [Cl("mid", z3.And(r.nan == z3.Or(a.nan, b.nan), z3.Implies(z3.Not(r.nan), r.v == (a.v + b.v) / 2)))]


def acq_term(c, q):
    b, a = bidask(c, c.self)
    m = mid_of(b, a)
    return vite(q.v < 0, b, vite(q.v > 0, a, m))


def same_fl(x, y):
    return z3.And(x.nan == y.nan, z3.Implies(z3.Not(x.nan), x.v == y.v))


@register
class AcqPrice(Contract):
    """a purchase executes at the ask, a sale at the bid, a flat position is priced at the mid (C14/C01)"""
    relpath, qual = REL, "LimitOrderBook.acq_price"
    props = ("C14", "C01", "C03", "C13")

    def pre_state(self, I):
        return {"self": book_row(I), "quantity": I.fl("quantity", may_nan=True)}

    def raises(self, c):
        return {"ValueError": {"when": lift_fl(c.quantity).nan}}

    def result(self, c):
        return acq_term(c, lift_fl(c.quantity))

    def ensures(self, c):
        q = lift_fl(c.quantity)
        b, a = bidask(c, c.self)
        r = lift_fl(c.result)
        return [Cl("side", z3.And(z3.Implies(q.v > 0, same_fl(r, a)), z3.Implies(q.v < 0, same_fl(r, b)),
                                  z3.Implies(q.v == 0, same_fl(r, mid_of(b, a)))))]


@register
class LiqPrice(Contract):
    """longs liquidate at the bid and shorts at the ask"""
    relpath, qual = REL, "LimitOrderBook.liq_price"
    props = ("C14", "C01", "C05")

    def pre_state(self, I):
        return {"self": book_row(I), "quantity": I.fl("quantity", may_nan=True)}

    def raises(self, c):
        return {"ValueError": {"when": lift_fl(c.quantity).nan}}

    def result(self, c):
        q = lift_fl(c.quantity)
        return acq_term(c, Fl(-q.v, q.nan))

    def ensures(self, c):
        q = lift_fl(c.quantity)
        b, a = bidask(c, c.self)
        r = lift_fl(c.result)
        return [Cl("side", z3.And(z3.Implies(q.v > 0, same_fl(r, b)), z3.Implies(q.v < 0, same_fl(r, a)),
                                  z3.Implies(q.v == 0, same_fl(r, mid_of(b, a)))))]
