"""Contracts for tradingenv/transmitter.py (C04, C08, C02): the partition slot of an event."""
import z3
from pyvc.vals import *
from pyvc.engine import Unsupported
from pyvc.models import sym_seq
from pyvc.contract import LoopBodyContract, Cl, PW, PWI
from . import register

import datetime as _dt
REL = "tradingenv/transmitter.py"
EPOCH_1800 = (_dt.datetime(1800, 1, 1) - _dt.datetime(2000, 1, 1)).total_seconds()      # engine time line: seconds since 2000-01-01


class PartitionMap:
    """a defaultdict(list) keyed by timestep: every append is recorded in the ghost trace"""

    def __init__(self, name):
        self.name = name

    def py_getitem(self, I, k):
        return PartitionList(self.name, lift_fl(k).v)


class PartitionList:
    def __init__(self, name, key):
        self.name, self.key = name, key

    def py_getattr(self, I, attr):
        return BoundMethod(self, attr)

    def py_call_method(self, I, name, args, kwargs):
        if name != "append":
            raise Unsupported("partition list method %s" % name)
        I.trace.append(("partition_append", self.name, self.key, args[0]))
        return None


@register
class PartitionSlot(LoopBodyContract):
    """C04/C08/C02: every event stamped no later than the last timestep is appended to exactly one list, keyed by the first
    timestep T[i] at or after its stamp (T[i-1] < stamp <= T[i]); it is latent iff stamp - T[i-1] <= latency; events after the
    last timestep are never stored."""
    relpath, qual, ordinal = REL, "Transmitter._create_partitions", 0
    props = ("C04", "C08", "C02")

    def pre_env(self, I):
        n = I.int("n_timesteps")
        T = I.func("T", IntS, RealS)
        ts = sym_seq(I, lambda i: Tm(T(i)), n, "list")
        I.heap[ts.oid]["sorted"] = True
        tr = I.new_rec("Transmitter", timesteps=ts, _partition_latent=PartitionMap("latent"),
                       _partition_nonlatent=PartitionMap("nonlatent"), _markov_reset=False)
        ev = I.new_rec("IEvent", time=I.tm("event_time"))
        return {"self": tr, "latency": I.fl("latency"), "event": ev, "_T": T, "_n": n}

    def requires(self, c):
        I = c.I
        T, n = c.args["_T"], c.args["_n"]
        # established by the code before the loop: `self.timesteps = sorted(set(self.timesteps))` (A3: strictly increasing,
        # non-empty - the empty case raises earlier), 0 <= latency (a negative latency makes nothing latent; TradingEnv's default is 0)
        I.assume_pwi2(lambda a, b: z3.Implies(z3.And(0 <= a, a < b, b < n), T(a) < T(b)))
        I.add_idx(n - 1)
        I.add_idx(z3.IntVal(0))
        return [Cl("non_empty_grid", n >= 1), Cl("latency_nonneg", z3.And(z3.Not(lift_fl(c.latency).nan), lift_fl(c.latency).v >= 0)),
                Cl("times_after_1800", z3.And(T(0) > EPOCH_1800, lift_fl(c.I.heap[c.event.oid]["time"]).v >= EPOCH_1800))]

    def ensures(self, c):
        I = c.I
        T, n = c.args["_T"], c.args["_n"]
        t = lift_fl(c.I.heap[c.event.oid]["time"]).v
        lat = lift_fl(c.latency).v
        apps = [x for x in I.trace if x[0] == "partition_append"]
        stored = t <= T(n - 1)
        out = [Cl("no_exception", z3.BoolVal(c.exc is None))]
        # values reported from counter-models: the grid points around the code's own bisect position
        bis = [j for j in I.__dict__.get("idxs", []) if str(j).startswith("bisect")]
        if bis:
            b = bis[0]
            I.witness.update({"slot_index": b, "n": n, "t_prev": T(b - 1), "t_slot": T(b), "t_next": T(b + 1)})
        if not apps:
            out.append(Cl("stored_iff_not_after_last_timestep", z3.Not(stored)))
            return out
        out.append(Cl("one_append_per_path", z3.BoolVal(len(apps) == 1)))
        _, name, key, ev = apps[0]
        i = I.idx("slot")
        # the slot is characterised without naming the code's index: key is a grid point T[i] with T[i-1] < t <= T[i]
        wit = [j for j in I.__dict__.get("idxs", [])]
        is_slot = lambda j: z3.And(0 <= j, j < n, key == T(j), t <= T(j), z3.Implies(j > 0, T(j - 1) < t))
        out.append(Cl("stored_iff_not_after_last_timestep", stored))
        out.append(Cl("slot", z3.Or(*[is_slot(j) for j in wit])))
        prev = lambda j: z3.If(j > 0, T(j - 1), z3.RealVal(EPOCH_1800))       # datetime(1800,1,1) in seconds since 2000-01-01
        latent = z3.BoolVal(name == "latent")
        out.append(Cl("latent_iff_within_latency", z3.And(*[z3.Implies(is_slot(j), latent == (t - prev(j) <= lat)) for j in wit])))
        out.append(Cl("same_event", z3.BoolVal(ev is c.event)))
        return out

    def witness(self, c):
        return {"event_time": lift_fl(c.I.heap[c.event.oid]["time"]).v, "latency": lift_fl(c.latency).v}

    def perturbed(self, c):
        I = c.I
        T, n = c.args["_T"], c.args["_n"]
        t = lift_fl(c.I.heap[c.event.oid]["time"]).v
        lat = lift_fl(c.latency).v
        apps = [x for x in I.trace if x[0] == "partition_append"]
        if not apps:
            return []
        _, name, key, ev = apps[0]
        wit = [j for j in I.__dict__.get("idxs", [])]
        is_slot = lambda j: z3.And(0 <= j, j < n, key == T(j), t <= T(j), z3.Implies(j > 0, T(j - 1) < t))
        prev = lambda j: z3.If(j > 0, T(j - 1), z3.RealVal(EPOCH_1800))
        latent = z3.BoolVal(name == "latent")
        return [Cl("latent_iff_strictly_within_latency", z3.And(*[z3.Implies(is_slot(j), latent == (t - prev(j) < lat)) for j in wit]))]


from pyvc.contract import Contract


class TransmitterNextSteady(Contract):
    """C04 (exactly once, in grid order): outside the first step of a non-markov episode (whose warm-up concatenation over dict
    items is only exercised by the bounded shell), `_next` visits the grid points of the episode strictly in order, one per call:
    it returns exactly the two partition lists keyed by steps[step_nr], advances step_nr by one, and raises StopIteration iff the
    steps are exhausted (nothing returned twice, nothing skipped)."""
    relpath, qual = REL, "Transmitter._next"
    props = ("C04",)

    def pre_state(self, I):
        n = I.int("n_steps")
        I.assume(n >= 0)
        S = I.func("S", IntS, RealS)
        steps = sym_seq(I, lambda i: Tm(S(i)), n, "list")
        tr = I.new_rec("Transmitter", _steps=steps, _step_nr=In(I.int("step_nr")), _markov_reset=I.bool("markov_reset"), _warmup=None,
                       _partition_latent=PartitionMap("latent"), _partition_nonlatent=PartitionMap("nonlatent"),
                       _current_time=I.tm("current_time"))
        return {"self": tr, "_S": S, "_n": n}

    def requires(self, c):
        f = c.I.heap[c.self.oid]
        k = f["_step_nr"].v
        return [Cl("step_counter_nonneg", k >= 0),
                Cl("not_the_warm_up_step", z3.Or(k >= 1, tobool(f["_markov_reset"])))]

    def raises(self, c):
        f = c.I.heap[c.self.oid]
        return {"StopIteration": {"when": f["_step_nr"].v >= c.args["_n"], "post": []}}

    def modifies(self, c):
        return [("field", c.self, "_current_time"), ("field", c.self, "_step_nr")]

    def ensures(self, c):
        f0, f1 = c.old[c.self.oid], c.heap()[c.self.oid]
        S = c.args["_S"]
        k = f0["_step_nr"].v
        r = c.result
        shape = isinstance(r, tuple) and len(r) == 2 and all(isinstance(x, PartitionList) for x in r)
        out = [Cl("advances_by_one", f1["_step_nr"].v == k + 1),
               Cl("clock_is_the_visited_grid_point", lift_fl(f1["_current_time"]).v == S(k)),
               Cl("returns_two_partition_lists", z3.BoolVal(bool(shape)))]
        if shape:
            out += [Cl("latent_batch_of_this_grid_point", z3.And(z3.BoolVal(r[0].name == "latent"), r[0].key == S(k))),
                    Cl("nonlatent_batch_of_this_grid_point", z3.And(z3.BoolVal(r[1].name == "nonlatent"), r[1].key == S(k)))]
        return out

    def perturbed(self, c):
        f0, f1 = c.old[c.self.oid], c.heap()[c.self.oid]
        return [Cl("does_not_advance", f1["_step_nr"].v == f0["_step_nr"].v)]
