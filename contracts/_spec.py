"""Shared spec vocabulary for the broker / exchange contracts (DESIGN §7 "Common spec vocabulary").

Spec functions are written once against a *view* and are polymorphic: with a symbolic view they build
z3 terms, with a concrete view (real Broker object, replay and run-time contracts) they compute floats.

  liq(c,q)   = bid(c) if q>0, ask(c) if q<0, mid(c) if q=0           -- from the C01 statement
  acq(c,x)   = ask(c) if x>0, bid(c) if x<0, mid(c) if x=0
  pend(c)    = q_c*mult_c*(liq(c,q_c) - last_c)   if mr_c != 0 and c in dom(last), else 0
  eq_term(c) = margins_c + pend(c) + cr_c*mult_c*q_c*liq(c,q_c)      -- equity(B) = SUM_c eq_term(c)
  target(c)  = mr_c*mult_c*|q_c|*liq(c,q_c)
"""
import math, z3
from pyvc.vals import *
from pyvc import ghost

TOL = 1e-9


# ------------------------------------------------------------------ polymorphic helpers
def sym(x):
    return z3.is_expr(x)


def ite(c, a, b):
    if not sym(c):
        return a if c else b
    return z3.If(c, a, b)


def And_(*xs):
    if any(sym(x) for x in xs):
        return z3.And(*[z3.BoolVal(x) if isinstance(x, bool) else x for x in xs])
    return all(xs)


def Or_(*xs):
    if any(sym(x) for x in xs):
        return z3.Or(*[z3.BoolVal(x) if isinstance(x, bool) else x for x in xs])
    return any(xs)


def Not_(x):
    return z3.Not(x) if sym(x) else (not x)


def Implies_(a, b):
    if sym(a) or sym(b):
        return z3.Implies(z3.BoolVal(a) if isinstance(a, bool) else a, z3.BoolVal(b) if isinstance(b, bool) else b)
    return (not a) or b


def eq(a, b):
    if sym(a) or sym(b):
        return a == b
    if isinstance(a, bool) or isinstance(b, bool):
        return a == b
    if a is None or b is None:
        return a is b
    if not isinstance(a, (int, float)) and not hasattr(a, "__float__"):
        return a == b
    a, b = float(a), float(b)
    return abs(a - b) <= TOL * max(1.0, abs(a), abs(b))


def absv(x):
    return absr(x) if sym(x) else abs(x)


def ne0(x):
    """x != 0 (exact in both modes: quantities that are set to 0. are exactly 0)"""
    return x != 0


# ------------------------------------------------------------------ views
def keymemo(fn):
    """memoise a view/spec method on the z3 ids of its term arguments (terms are immutable)"""
    name = fn.__name__

    def g(self, *args):
        cache = self.__dict__.setdefault("_memo", {})
        key = (name,) + tuple(a.get_id() if hasattr(a, "get_id") else a for a in args)
        r = cache.get(key)
        if r is None:
            r = (fn(self, *args), args)      # args kept alive: ids stay unique
            cache[key] = r
        return r[0]
    g.__name__ = name
    return g


class SymBrokerView:
    """reads a Broker record (and its Exchange) out of a symbolic heap"""

    def __new__(cls, I, broker, heap=None):
        # one view per (broker, heap snapshot): the memo tables of its accessors are shared
        if heap is None:
            return object.__new__(cls)
        cache = I.__dict__.setdefault("_views", {})
        key = (broker.oid, id(heap))
        v = cache.get(key)
        if v is None or v[1] is not heap:
            v = (object.__new__(cls), heap)
            cache[key] = v
        return v[0]

    def __init__(self, I, broker, heap=None):
        if getattr(self, "_ready", False):
            return
        self._ready = True
        self.I, self.b = I, broker
        self.h = I.snapshot() if heap is None else heap
        f = self.h[broker.oid]
        self.exch = f["exchange"]
        self.books = self.h[self.exch.oid]["_books"]
        self.cash = f["base_currency"].t
        self.eps = f["_epsilon"].v

    def _m(self, name, k):
        return self.h[self.h[self.b.oid][name].oid]["get"](k)

    @keymemo
    def qty(self, k):
        return self._m("_holdings_quantity", k).v

    @keymemo
    def margin(self, k):
        return self._m("_holdings_margins", k).v

    @keymemo
    def last(self, k):
        return self._m("_last_marking_to_market_price", k).v

    @keymemo
    def has_last(self, k):
        return self.h[self.h[self.b.oid]["_last_marking_to_market_price"].oid]["dom"](k)

    @keymemo
    def in_qty(self, k):
        return self.h[self.h[self.b.oid]["_holdings_quantity"].oid]["dom"](k)

    @keymemo
    def in_margins(self, k):
        return self.h[self.h[self.b.oid]["_holdings_margins"].oid]["dom"](k)

    def _col(self, field, k):
        return self.h[self.books.oid]["cols"][field](sh(k))

    @keymemo
    def bid(self, k):
        return self._col("bid_price", k).v

    @keymemo
    def ask(self, k):
        return self._col("ask_price", k).v

    @keymemo
    def bid_nan(self, k):
        return self._col("bid_price", k).nan

    @keymemo
    def ask_nan(self, k):
        return self._col("ask_price", k).nan

    def mult(self, k):
        return mult(k)

    def mr(self, k):
        return mr(k)

    def cr(self, k):
        return cr(k)

    def is_cash(self, k):
        return is_cash(k)


class ConcreteBrokerView:
    """the same interface over a real tradingenv Broker (replay, run-time contracts)"""

    def __init__(self, broker, snapshot=None):
        self.b = broker
        s = snapshot
        self._q = dict(broker._holdings_quantity) if s is None else s["q"]
        self._mg = dict(broker._holdings_margins) if s is None else s["m"]
        self._l = dict(broker._last_marking_to_market_price) if s is None else s["l"]
        self._books = None if s is None else s["books"]
        self.cash = broker.base_currency
        self.eps = broker._epsilon

    @staticmethod
    def snap(broker):
        books = {}
        for k, bk in broker.exchange._books.items():
            books[k] = (bk.bid_price, bk.ask_price)
        return {"q": dict(broker._holdings_quantity), "m": dict(broker._holdings_margins),
                "l": dict(broker._last_marking_to_market_price), "books": books}

    def keys(self):
        return set(self._q) | set(self._mg) | set(self._l)

    def qty(self, k):
        return float(self._q.get(k, 0.0))

    def margin(self, k):
        return float(self._mg.get(k, 0.0))

    def last(self, k):
        return float(self._l.get(k, 0.0))

    def has_last(self, k):
        return k in self._l

    def in_qty(self, k):
        return k in self._q

    def in_margins(self, k):
        return k in self._mg

    def _book(self, k):
        k = k.static_hashing()
        if self._books is not None:
            return self._books.get(k, (float("nan"), float("nan")))
        bk = self.b.exchange._books.get(k)
        return (float("nan"), float("nan")) if bk is None else (bk.bid_price, bk.ask_price)

    def bid(self, k):
        v = self._book(k)[0]
        return 0.0 if v != v else float(v)

    def ask(self, k):
        v = self._book(k)[1]
        return 0.0 if v != v else float(v)

    def bid_nan(self, k):
        v = self._book(k)[0]
        return v != v

    def ask_nan(self, k):
        v = self._book(k)[1]
        return v != v

    def mult(self, k):
        return float(k.multiplier)

    def mr(self, k):
        return float(k.margin_requirement)

    def cr(self, k):
        return float(k.cash_requirement)

    def is_cash(self, k):
        from tradingenv.contracts import Cash
        return isinstance(k, Cash)


# ------------------------------------------------------------------ spec functions
def mid(v, k):
    return (v.ask(k) + v.bid(k)) / 2


def liq(v, k, q):
    """liquidation price of a position q: longs at the bid, shorts at the ask, flat at the mid"""
    return ite(q > 0, v.bid(k), ite(q < 0, v.ask(k), mid(v, k)))


def acq(v, k, x):
    """execution price of trading x: purchases at the ask, sales at the bid"""
    return ite(x > 0, v.ask(k), ite(x < 0, v.bid(k), mid(v, k)))


def liq_nan(v, k, q):
    return ite(q > 0, v.bid_nan(k), ite(q < 0, v.ask_nan(k), Or_(v.bid_nan(k), v.ask_nan(k))))


def pend(v, k):
    q = v.qty(k)
    return ite(And_(ne0(v.mr(k)), v.has_last(k)), q * v.mult(k) * (liq(v, k, q) - v.last(k)), 0 * q)


def eq_term(v, k):
    q = v.qty(k)
    return v.margin(k) + pend(v, k) + v.cr(k) * v.mult(k) * q * liq(v, k, q)


def target(v, k):
    q = v.qty(k)
    return v.mr(k) * v.mult(k) * absv(q) * liq(v, k, q)


def valid_quote(v, k):
    return And_(Not_(v.bid_nan(k)), Not_(v.ask_nan(k)), v.bid(k) > 0, v.bid(k) <= v.ask(k))


def sane_quote(v, k):
    """quotes, when present, are positive and ordered (the property's quantifier); NaN sides allowed"""
    return And_(Implies_(Not_(v.bid_nan(k)), v.bid(k) > 0), Implies_(Not_(v.ask_nan(k)), v.ask(k) > 0),
                Implies_(And_(Not_(v.bid_nan(k)), Not_(v.ask_nan(k))), v.bid(k) <= v.ask(k)))


def spec_regime(v, k):
    """A9: spot-like (paid in full, no margin) or margined (nothing upfront, margin in (0,1]); multiplier > 0"""
    return And_(v.mult(k) > 0,
                Or_(And_(eq(v.cr(k), 1), eq(v.mr(k), 0)),
                    And_(eq(v.cr(k), 0), v.mr(k) > 0, v.mr(k) <= 1)))


def cash_ok(v):
    c = v.cash
    return And_(v.is_cash(c), eq(v.mult(c), 1), eq(v.cr(c), 1), eq(v.mr(c), 0),
                Not_(v.bid_nan(c)), Not_(v.ask_nan(c)), eq(v.bid(c), 1), eq(v.ask(c), 1), eq(v.margin(c), 0))


def wf_at(v, k, sign=True):
    """pointwise well-formedness of the account (the invariant WF(B) of DESIGN §7, at key k).
    sign=False leaves out `margin >= 0` (transact credits the traded lots' P&L to the margin just before
    re-marking, so marking-to-market must not rely on the sign of the margin it is about to reset)"""
    cl = [
        Implies_(eq(v.mr(k), 0), eq(v.margin(k), 0)),
        Implies_(And_(ne0(v.mr(k)), Not_(v.has_last(k))), And_(eq(v.qty(k), 0), eq(v.margin(k), 0))),
        Implies_(v.is_cash(k), eq(k, v.cash) if not sym(k) else k == v.cash),
        # a contract that has a mark went through transact, which registers it in the margins map
        Implies_(And_(ne0(v.mr(k)), v.has_last(k)), v.in_margins(k)),
    ]
    if sign:
        cl.append(v.margin(k) >= 0)
        cl.append(Implies_(eq(v.qty(k), 0), eq(v.margin(k), 0)))
    return And_(*cl)


def static_key(k):
    return sh(k) == k


class EquityFam(ghost.Family):
    """equity(B) = SUM_k eq_term(k)"""

    def __init__(self, broker):
        self.b = broker
        self.name = "equity#%d" % broker.oid

    def term(self, I, heap, k):
        return eq_term(SymBrokerView(I, self.b, heap), k)

    def deps(self, I, heap):
        f = heap[self.b.oid]
        out = []
        for name in ("_holdings_quantity", "_holdings_margins", "_last_marking_to_market_price"):
            p = heap[f[name].oid]
            out += [p["get"], p["dom"]]
        books = heap[heap[f["exchange"].oid]["_books"].oid]
        out += [books["cols"]["bid_price"], books["cols"]["ask_price"]]
        return out


def exists_key(I, name, pred):
    """a Bool equivalent to  exists k. pred(k)   (definitional axioms; keeps every query quantifier free):
         (forall k. pred(k) -> b)   and   (b -> pred(w))  for a witness constant w.
    While a callee's raise conditions are being evaluated at a call site the witness is *lazy*: it becomes a key of
    the path (and b -> pred(w) is assumed) only if the raising side is taken; on the other side b is simply false and
    only the universal direction matters."""
    cache = I.__dict__.setdefault("_exists", {})
    lazy = getattr(I, "in_callsite", 0) > 0
    if name in cache:
        e = cache[name]
        if not lazy and not e["active"]:
            activate_exists(I, e)
        return e["b"]
    b = z3.Bool("EX[%s]" % name)
    w = z3.Const("wit[%s]" % name, K)
    e = {"b": b, "w": w, "pred": pred, "active": False}
    cache[name] = e
    I.assume_pw(lambda k: z3.Implies(pred(k), b))
    if lazy:
        I.__dict__.setdefault("_pending_exists", []).append(e)
    else:
        activate_exists(I, e)
    return b


def activate_exists(I, e):
    if e["active"]:
        return
    e["active"] = True
    I.add_key(e["w"])
    I.assume(z3.Implies(e["b"], e["pred"](e["w"])))


# ------------------------------------------------------------------ symbolic pre-states
def mk_exchange(I):
    bid = I.func("bid", K, RealS)
    bidn = I.func("bid?nan", K, BoolS)
    ask = I.func("ask", K, RealS)
    askn = I.func("ask?nan", K, BoolS)
    alive = I.func("alive", K, BoolS)
    dom = I.func("books?dom", K, BoolS)
    books = I.new_obj("objmap", "defaultdict", {
        "cols": {"bid_price": lambda k: Fl(bid(k), bidn(k)), "ask_price": lambda k: Fl(ask(k), askn(k)),
                 "is_alive": lambda k: alive(k)},
        "dom": lambda k: dom(k), "rowcls": "LimitOrderBook", "total": True})
    # representation invariant of defaultdict(LimitOrderBook): absent rows read as a fresh book (NaN : NaN, alive)
    I.assume_pw(lambda k: z3.Implies(z3.Not(dom(k)), z3.And(bidn(k), askn(k), alive(k))))
    ex = I.new_rec("Exchange", _books=books, last_update=None)
    return ex


def mk_fees(I):
    rate = I.key("rate")
    return I.new_rec("BrokerFees", fixed=I.fl("fee_fixed"), proportional=I.fl("fee_prop"), markup=I.fl("markup"),
                     interest_rate=KeyV(rate))


def mk_broker(I, last_accrual="none"):
    ex = mk_exchange(I)
    fees = mk_fees(I)
    cash = I.key("cash")
    q = I.sym_map("qty", default="float")
    m = I.sym_map("margins", default="float")
    l = I.sym_map("last", default=None)
    tr = I.new_rec("TrackRecord", _has_time=lambda x: FALSE, _n=In(0), _last_record=None)
    la = None if last_accrual == "none" else I.fl("last_accrual")
    b = I.new_rec("Broker", exchange=ex, base_currency=KeyV(cash), fees=fees, _epsilon=I.fl("eps"),
                  _holdings_margins=m, _holdings_quantity=q, _initial_deposit=I.fl("deposit"),
                  _last_accrual=la, _last_marking_to_market_price=l, track_record=tr)
    return b


def broker_requires(I, b, keys=(), sign=True):
    """WF(B) + the property's quantifier on quotes, fees and contract specs, as assumable clauses"""
    from pyvc.contract import Cl, PW
    h = I.snapshot()
    v = SymBrokerView(I, b, h)
    fees = I.heap[b.oid]["fees"]
    ff = I.heap[fees.oid]
    out = [
        Cl("cash_ok", cash_ok(v)),
        Cl("cash_static", static_key(v.cash)),
        Cl("eps_pos", v.eps > 0),
        Cl("fees_nonneg", z3.And(ff["fixed"].v >= 0, ff["proportional"].v >= 0)),
        PW("wf", lambda k: wf_at(v, k, sign)),
        PW("sane_quotes", lambda k: sane_quote(v, k)),
        PW("spec_regime", lambda k: spec_regime(v, k)),
        PW("static_keys", lambda k: z3.Implies(z3.Or(v.in_qty(k), v.in_margins(k), v.has_last(k)), static_key(k))),
        PW("sh_idempotent", lambda k: sh(sh(k)) == sh(k)),
    ]
    return out
