"""Contracts for tradingenv/rewards.py and TradingEnv.step (C09, C17, C08, C07)."""
import z3
from pyvc.vals import *
from pyvc import ghost
from pyvc.engine import Unsupported, PyRaise
from pyvc.models import sym_seq, act_array, log_
from pyvc.contract import Contract, Cl, PW, PWI, Ctx
from . import register, REGISTRY
from ._spec import *
from .broker import EquityFam, missing_liq, LazyList, bmaps
from .rebalance import mk_track_record
from .spaces import mk_box_space, mk_discrete_space, space_contains, denoted_allocation

REL_ENV = "tradingenv/env.py"
REL_RW = "tradingenv/rewards.py"


# ============================================================================= track record access (ASSUMED)
@register
class TrackRecordGetItem(Contract):
    """ASSUMED contract of TrackRecord.__getitem__ for item == -1 (python list/dict bookkeeping, not verified
    deductively; exercised by the bounded shell of C07): the most recent record; IndexError when there is none."""
    relpath, qual = "tradingenv/broker/track_record.py", "TrackRecord.__getitem__"
    assumed = True
    props = ("C07",)

    def raises(self, c):
        tr = c.heap(True)[c.self.oid]
        return {"IndexError": {"when": tr["_n"].v == 0}}

    def result(self, c):
        return c.heap(True)[c.self.oid]["_last_record"]


def _attach_concrete():
    from .rebalance import GetItemConcrete
    TrackRecordGetItem.concrete = GetItemConcrete()
    TrackRecordGetItem.assumed = False
    TrackRecordGetItem.abstraction = "image of the verified concrete contract under _last_record = _rebalancing[_time[-1]], _n = len(_time) (argued, A10)"


_attach_concrete()


# ============================================================================= rewards
def mk_env_for_reward(I, with_record=True):
    b = mk_broker(I)
    tr = mk_track_record(I)
    if with_record:
        pre = I.new_rec("Context", nlv=I.fl("nlv_recorded"))
        rb = I.new_rec("Rebalancing", context_pre=pre)
        I.fset(tr, "_last_record", rb)
        I.assume(I.heap[tr.oid]["_n"].v >= 1)
    else:
        I.assume(I.heap[tr.oid]["_n"].v == 0)
    I.fset(b, "track_record", tr)
    return I.new_rec("TradingEnv", broker=b, exchange=I.heap[b.oid]["exchange"])


class _Reward(Contract):
    """C07: the step reward is the stated function of NLV now and the NLV recorded just before the step's trades;
    C09: it raises EndOfEpisodeError exactly when the account is insolvent now (this is the call through which D6 escapes)"""
    relpath = REL_RW
    props = ("C07", "C09")
    cls = None

    def mk_self(self, I):
        return I.new_rec(self.cls)

    def pre_state(self, I):
        with_record = I.choice(2) == 0
        return {"self": self.mk_self(I), "env": mk_env_for_reward(I, with_record)}

    def broker(self, c, old=True):
        return c.heap(old)[c.env.oid]["broker"]

    def requires(self, c):
        I = c.I
        b = self.broker(c, False)
        out = broker_requires(I, b)
        tr = I.heap[I.heap[b.oid]["track_record"].oid]
        lr = tr["_last_record"]
        if lr is not None:
            nl = lift_fl(I.heap[I.heap[lr.oid]["context_pre"].oid]["nlv"])
            out.append(Cl("recorded_nlv_positive", z3.And(z3.Not(nl.nan), nl.v > 0)))     # Broker.context::ensures::nlv
        out.append(Cl("record_iff_counted", (tr["_n"].v >= 1) if lr is not None else (tr["_n"].v == 0)))
        return out

    def nlvc(self, c):
        b = Ctx(c.I, {"self": self.broker(c), "raise_if_broke": True})
        b.old, b.new, b.callsite = c.old, c.new, c.callsite
        return b

    def raises(self, c):
        nlv = REGISTRY["Broker.net_liquidation_value"]
        tr = c.old[c.old[self.broker(c).oid]["track_record"].oid]
        empty = tr["_n"].v == 0
        base = nlv.raises(self.nlvc(c))
        out = {"IndexError": {"when": empty}}
        for typ, sp in base.items():
            out[typ] = dict(sp, when=z3.And(z3.Not(empty), sp["when"]))
        return out

    def modifies(self, c):
        return REGISTRY["Broker.net_liquidation_value"].modifies(self.nlvc(c))

    def nlv_last(self, c):
        b = self.broker(c)
        tr = c.old[c.old[b.oid]["track_record"].oid]
        return lift_fl(c.old[c.old[tr["_last_record"].oid]["context_pre"].oid]["nlv"]).v

    def formula(self, c, now, last):
        raise NotImplementedError

    def result(self, c):
        E = ghost.gsum(c.I, EquityFam(self.broker(c)), c.old)
        return Fl(self.formula(c, E, self.nlv_last(c)))

    def ensures(self, c):
        E = ghost.gsum(c.I, EquityFam(self.broker(c)), c.old)
        r = lift_fl(c.result)
        return [Cl("formula", z3.And(z3.Not(r.nan), r.v == self.formula(c, E, self.nlv_last(c))))] + \
            REGISTRY["Broker.net_liquidation_value"].post_state(self.nlvc(c))


@register
class RewardSimpleReturnC(_Reward):
    qual, cls = "RewardSimpleReturn.calculate", "RewardSimpleReturn"

    def formula(self, c, now, last):
        return now / last - 1


@register
class RewardPnLC(_Reward):
    qual, cls = "RewardPnL.calculate", "RewardPnL"

    def formula(self, c, now, last):
        return now - last


@register
class RewardLogReturnC(_Reward):
    qual, cls = "RewardLogReturn.calculate", "RewardLogReturn"

    def formula(self, c, now, last):
        return log_(now / last)


@register
class LogReturnC(_Reward):
    qual, cls = "LogReturn.calculate", "LogReturn"

    def mk_self(self, I):
        return I.new_rec("LogReturn", scale=I.fl("scale"), clip=I.fl("clip"), risk_aversion=I.fl("risk_aversion"))

    def requires(self, c):
        f = c.I.heap[c.self.oid]
        return _Reward.requires(self, c) + [Cl("shape_parameters", z3.And(f["scale"].v != 0, f["clip"].v >= 0))]

    def formula(self, c, now, last):
        f = c.old[c.self.oid]
        r = log_(now / last) / f["scale"].v
        r = z3.If(r < -f["clip"].v, -f["clip"].v, z3.If(r > f["clip"].v, f["clip"].v, r))
        return z3.If(r < 0, r * (1 + f["risk_aversion"].v), r)


# ============================================================================= environment model
class CounterMap:
    """TradingEnv._visits (a defaultdict(int) keyed by time): bookkeeping no property reads"""

    def py_getitem(self, I, k):
        return In(I.int("visits"))

    def py_setitem(self, I, k, v):
        return None


def mk_event_seq(I, base):
    n = I.int(base + "?len")
    I.assume(n >= 0)
    ev = I.func(base, IntS, Act)
    return sym_seq(I, lambda i: ActV(ev(i)), n, "list")


def mk_env(I, space_kind, reward_cls="RewardSimpleReturn", with_record=False):
    sp = mk_box_space(I) if space_kind == "box" else mk_discrete_space(I)
    b = mk_broker(I, last_accrual="sym")
    tr = mk_track_record(I)
    if with_record:
        # a later step of the episode: at least one decision has been executed and recorded
        pre = I.new_rec("Context", nlv=I.fl("nlv_recorded"))
        I.fset(tr, "_last_record", I.new_rec("Rebalancing", context_pre=pre))
    I.fset(b, "track_record", tr)
    I.fset(b, "base_currency", I.heap[sp.oid]["base_currency"])
    d = I.int("steps_delay")
    I.assume(d >= 0)
    if space_kind == "box":
        qf = I.func("queued", IntS, Act)
        q = sym_seq(I, lambda i: act_array(I, qf(i)), d, "deque", maxlen=d + 1)
    else:
        qf = I.func("queued", IntS, IntS)
        q = sym_seq(I, lambda i: In(qf(i)), d, "deque", maxlen=d + 1)
    if reward_cls == "LogReturn":
        rw = I.new_rec("LogReturn", scale=I.fl("scale"), clip=I.fl("clip"), risk_aversion=I.fl("risk_aversion"))
    else:
        rw = I.new_rec(reward_cls)
    tm = I.new_rec("Transmitter")
    st = I.new_rec("IState")
    return I.new_rec("TradingEnv", action_space=sp, state=st, observation_space=None, _verify_state=True, _reward=rw,
                     _initial_cash=I.fl("initial_cash"), _broker_fees=I.heap[b.oid]["fees"], _transmitter=tm,
                     _latency=I.fl("latency"), _real_time=False, _steps_delay=In(d), _queue_actions=q,
                     _sampling_span=None, _visits=CounterMap(), _episode_length=None, _done=I.bool("done0"),
                     exchange=I.heap[b.oid]["exchange"], broker=b, _last_event=None, _observers=Opaque("observers"),
                     _now=I.tm("now"), _events_latent=mk_event_seq(I, "latent"), _events_nonlatent=mk_event_seq(I, "nonlatent"))


def env_invariant(I, env, heap=None):
    """what reset establishes and every step preserves (C07/C08 lemmas): the broker is well formed, quotes are sane,
    the rate is quoted, the delay line holds exactly `steps_delay` in-space actions, recorded times are in the past"""
    h = heap or I.snapshot()
    f = h[env.oid]
    b = f["broker"]
    out = broker_requires(I, b)
    acc = REGISTRY["Broker.accrued_interest"]
    a = Ctx(I, {"self": b, "now": f["_now"], "accrue": True})
    out += [cl for cl in acc.requires(a) if cl.name not in ("cash_ok", "sh_idempotent")]
    q = h[f["_queue_actions"].oid]
    d = f["_steps_delay"].v
    sp = f["action_space"]
    spf = h[sp.oid]
    tr = h[h[b.oid]["track_record"].oid]
    out += [
        Cl("delay_line_shape", z3.And(q["len"] == d, q["maxlen"] == d + 1, d >= 0)),
        Cl("space_threshold", lift_fl(spf["_margin"]).v >= 0),
        Cl("fresh_timestamp", z3.Not(tr["_has_time"](f["_now"].v))),
        Cl("clock_not_before_last_accrual", TRUE if h[b.oid]["_last_accrual"] is None else h[b.oid]["_last_accrual"].v <= f["_now"].v),
        Cl("record_iff_counted", (tr["_n"].v >= 1) if tr["_last_record"] is not None else (tr["_n"].v == 0)),
    ]
    if tr["_last_record"] is not None:
        nl = lift_fl(h[h[tr["_last_record"].oid]["context_pre"].oid]["nlv"])
        out.append(Cl("recorded_nlv_positive", z3.And(z3.Not(nl.nan), nl.v > 0)))      # Broker.rebalance::ensures::record_nlv
    rw = h[f["_reward"].oid]
    if f["_reward"].cls == "LogReturn":
        out.append(Cl("reward_shape_parameters", z3.And(rw["scale"].v != 0, rw["clip"].v >= 0)))
    if sp.cls == "DiscretePortfolio":
        n = h[spf["contracts"].oid]["len"]
        out.append(Cl("table_width", spf["_allocations"].ncols == n))
    bex = h[b.oid].get("exchange")
    out.append(Cl("broker_trades_on_this_exchange", z3.BoolVal(isinstance(bex, Obj) and isinstance(f["exchange"], Obj) and bex.oid == f["exchange"].oid)))
    return out + clock_invariant(I, env, h)


# ----------------------------------------------------------------------------- delivering a batch of market events
from pyvc.loops import LoopContract


def seq_view(p):
    """(len, at) of a sequence record, symbolic (`at`) or a concrete python list of values (`items`)"""
    if "at" in p:
        return p["len"], p["at"]
    items = list(p["items"])
    def at(i):
        v = None
        for j in reversed(range(len(items))):
            v = items[j] if v is None else vite(i == j, items[j], v)
        return v if v is not None else ActV(z3.Const("no_event", Act))
    return z3.IntVal(len(items)), at


def clock_of(f):
    """the environment clock: None while no event has been notified since reset"""
    return None if f.get("_now") is None else lift_fl(f["_now"]).v


def batch_sorted(I, seq_obj, heap, lows, tag=""):
    """what Transmitter._create_partitions/_next establish for a batch (C04 lemma): stamps non-decreasing, none before the clock.
    lows: [(guard, lower bound)]"""
    n, at = seq_view(heap[seq_obj.oid])
    I.add_idx(z3.IntVal(0))
    first = ev_time(at(z3.IntVal(0)).t)
    return [PWI(tag + "batch_in_stamp_order", lambda i: z3.Implies(z3.And(0 <= i, i + 1 < n), ev_time(at(i).t) <= ev_time(at(i + 1).t))),
            Cl(tag + "batch_not_before_the_clock", z3.And(*[z3.Implies(z3.And(n > 0, g), first >= lo) for g, lo in lows]) if lows else TRUE)]


def clock_invariant(I, env, heap):
    """C04: the clock is the stamp of the last notified event; the buffered batches are in stamp order, the latent batch not before
    the clock and the non-latent batch not before the end of the latent one"""
    f = heap[env.oid]
    now = clock_of(f)
    le = f["_last_event"]
    lat, non = f["_events_latent"], f["_events_nonlatent"]
    nl, atl = seq_view(heap[lat.oid])
    I.add_idx(nl - 1)
    lows_lat = [(TRUE, now)] if now is not None else []
    lows_non = [(nl > 0, ev_time(atl(nl - 1).t))] + ([(nl == 0, now)] if now is not None else [])
    return ([Cl("clock_is_last_event_time", z3.BoolVal(le is None) if now is None else (TRUE if le is None else event_time(heap, le) == now))]
            + batch_sorted(I, lat, heap, lows_lat, "latent_") + batch_sorted(I, non, heap, lows_non, "nonlatent_"))


class _ProcessEvents(Contract):
    """C04: the batch is notified in list order, each event exactly once, the clock ends at the last event's stamp; the buffers are
    swapped as stated. What the delivered events do to the quotes is an assumption about the *inputs* (the property's quantifier:
    0 < bid <= ask, cash at 1/1, the rate quoted). The clock may be undefined at entry (first delivery after a reset)."""
    relpath = REL_ENV
    props = ("C04", "C08")
    field = None
    sets_done = False

    def pre_state(self, I):
        env = mk_env(I, "box")
        I.fset(env, "_g_delivered", In(I.int("delivered0")))
        if I.choice(2) == 1:                      # right after a reset: no clock, no last event
            I.fset(env, "_now", None)
            I.fset(env, "_last_event", None)
        return {"self": env}

    def requires(self, c):
        I = c.I
        h = I.snapshot()
        f = h[c.self.oid]
        le = f["_last_event"]
        now = clock_of(f)
        bex = h[f["broker"].oid].get("exchange")
        wired = isinstance(bex, Obj) and isinstance(f["exchange"], Obj) and bex.oid == f["exchange"].oid
        return batch_sorted(I, f[self.field], h, [(TRUE, now)] if now is not None else []) + \
            [Cl("broker_trades_on_this_exchange", z3.BoolVal(bool(wired))), Cl("clock_is_last_event_time", z3.BoolVal(le is None) if now is None else (TRUE if le is None else event_time(h, le) == now))]

    def modifies(self, c):
        f = c.I.heap[c.self.oid]
        books = c.I.heap[f["exchange"].oid]["_books"]
        out = [("col", books, "bid_price"), ("col", books, "ask_price"), ("field", c.self, "_now"), ("field", c.self, "_last_event"),
               ("field", c.self, "_events_latent"), ("field", c.self, "_events_nonlatent"), ("field", c.self, "_g_delivered"),
               ("global", "AbstractContract.now")]
        if self.sets_done:
            out.append(("field", c.self, "_done"))
        return out

    def havoc(self, c):
        I = c.I
        f = I.heap[c.self.oid]
        books = I.heap[f["exchange"].oid]["_books"]
        from pyvc.contract import havoc_loc
        havoc_loc(I, ("col", books, "bid_price"))
        havoc_loc(I, ("col", books, "ask_price"))
        old = c.old[c.self.oid]
        n, at = seq_view(c.old[old[self.field].oid])
        I.add_idx(n - 1)
        now0 = clock_of(old)
        if now0 is None:
            if I.branch(n > 0):
                I.fset(c.self, "_now", Tm(ev_time(at(n - 1).t)))
                I.fset(c.self, "_last_event", I.new_rec("IEvent", time=I.heap[c.self.oid]["_now"]))
        else:
            I.fset(c.self, "_now", Tm(z3.If(n > 0, ev_time(at(n - 1).t), now0)))
            I.fset(c.self, "_last_event", I.new_rec("IEvent", time=I.heap[c.self.oid]["_now"]))
        if "_g_delivered" in old:
            I.fset(c.self, "_g_delivered", In(old["_g_delivered"].v + n))
        I.trace.append(("global_write", "AbstractContract.now"))
        I.trace.append(("events_delivered", self.field, clock_of(I.heap[c.self.oid])))
        if not self.sets_done:
            I.fset(c.self, "_events_latent", mk_event_seq(I, "latent_empty"))
            I.assume(I.heap[I.heap[c.self.oid]["_events_latent"].oid]["len"] == 0)
        else:
            ex = I.bool("stream_exhausted")
            I.trace.append(("stream_exhausted", ex))
            lat, non = mk_event_seq(I, "latent"), mk_event_seq(I, "nonlatent")
            I.fset(c.self, "_done", z3.Or(tobool(old["_done"]), ex))
            # exhausted: the buffers keep what they held; otherwise they hold the two batches of the next timestep
            I.fset(c.self, "_events_latent", lat)
            I.fset(c.self, "_events_nonlatent", non)

    def delivery(self, c):
        I = c.I
        old, new = c.old[c.self.oid], c.heap()[c.self.oid]
        n, at = seq_view(c.old[old[self.field].oid])
        I.add_idx(n - 1)
        now0, now1 = clock_of(old), clock_of(new)
        if now1 is None:
            clk = z3.And(z3.BoolVal(now0 is None), n == 0)
            adv = z3.BoolVal(now0 is None)
        elif now0 is None:
            clk = z3.And(n > 0, now1 == ev_time(at(n - 1).t))
            adv = TRUE
        else:
            clk = now1 == z3.If(n > 0, ev_time(at(n - 1).t), now0)
            adv = now1 >= now0
        le = new["_last_event"]
        out = [Cl("clock_at_last_delivered_event", clk), Cl("clock_advances", adv),
               Cl("clock_is_last_event_time", z3.BoolVal(le is None) if now1 is None else (TRUE if le is None else event_time(c.heap(), le) == now1))]
        if "_g_delivered" in old:
            out.append(Cl("every_event_notified_exactly_once", new["_g_delivered"].v == old["_g_delivered"].v + n))
        return out

    def inputs(self, c):
        """input assumptions: market events keep quotes within the property's quantifier and keep the rate quoted"""
        I = c.I
        h = I.snapshot()
        f = h[c.self.oid]
        b = f["broker"]
        v = SymBrokerView(I, b, h)
        tr = h[h[b.oid]["track_record"].oid]
        cl = [Cl("cash_ok", cash_ok(v)), PW("sane_quotes", lambda k: sane_quote(v, k))]
        if clock_of(f) is not None:
            cl.append(Cl("fresh_timestamp", z3.Not(tr["_has_time"](clock_of(f)))))
            cl += [x for x in REGISTRY["Broker.accrued_interest"].requires(Ctx(I, {"self": b, "now": f["_now"], "accrue": True}))
                   if x.name in ("rate_quoted", "markup", "pow_axioms")]
        for x in cl:
            x.input_assumption = True        # AXIOM(inputs)
        return cl


@register
class ProcessLatent(_ProcessEvents):
    qual = "TradingEnv._process_latent_events"
    field = "_events_latent"

    def ensures(self, c):
        new = c.heap()[c.self.oid]
        buf = c.heap()[new["_events_latent"].oid] if isinstance(new["_events_latent"], Obj) else None
        return self.delivery(c) + [Cl("latent_buffer_emptied", FALSE if buf is None else seq_view(buf)[0] == 0)] + self.inputs(c)


@register
class ProcessNonLatent(_ProcessEvents):
    qual = "TradingEnv._process_nonlatent_events"
    field = "_events_nonlatent"
    sets_done = True

    def ensures(self, c):
        old, new = c.old[c.self.oid], c.heap()[c.self.oid]
        nxt = clock_invariant(c.I, c.self, c.heap())
        for x in nxt:
            if x.name != "clock_is_last_event_time":
                x.input_assumption = True     # ASSUMED of Transmitter._next (C04 partition-slot lemma + bounded shell): next batches ordered, after the clock
        return self.delivery(c) + [Cl("done_is_only_ever_set", z3.Implies(tobool(old["_done"]), tobool(new["_done"])))] + \
            [x for x in nxt if x.name != "clock_is_last_event_time"] + self.inputs(c)


class _DeliverLoop(LoopContract):
    ordinal = 0
    field = None

    def havoc(self, L):
        env = L.env["self"]
        old = L.entry[env.oid]

        def clock(I):
            # at an arbitrary iteration the clock is a time and the last event is some event, unless nothing has been notified
            # yet (only possible before the first iteration of the first delivery after a reset)
            if clock_of(old) is None and I.choice(2) == 0:
                return
            I.fset(env, "_now", I.tm("hv_now"))
            I.fset(env, "_last_event", I.new_rec("IEvent", time=I.tm("hv_last_time")))
        return [clock, ("field", env, "_g_delivered"), ("global", "AbstractContract.now")]

    def frame(self, L):
        env = L.env["self"]
        return [("field", env, "_now"), ("field", env, "_last_event"), ("field", env, "_g_delivered")]

    def inv(self, L):
        env = L.env["self"]
        old, cur = L.entry[env.oid], L.cur[env.oid]
        n, at = seq_view(L.entry[old[self.field].oid])
        i = L.i
        L.I.add_idx(i - 1)
        now0, now = clock_of(old), clock_of(cur)
        le = cur["_last_event"]
        if now is None:
            out = [Cl("clock_follows_the_batch", z3.And(z3.BoolVal(now0 is None), i == 0)),
                   Cl("last_event_is_the_clock", z3.BoolVal(le is None))]
        else:
            follows = z3.And(i > 0, now == ev_time(at(i - 1).t)) if now0 is None else now == z3.If(i > 0, ev_time(at(i - 1).t), now0)
            out = [Cl("clock_follows_the_batch", follows),
                   Cl("clock_never_goes_back", TRUE if now0 is None else now >= now0),
                   Cl("last_event_is_the_clock", TRUE if le is None else event_time(L.cur, le) == now)]
        if "_g_delivered" in old:
            out.append(Cl("delivered_so_far", cur["_g_delivered"].v == old["_g_delivered"].v + i))
        return out


@register
class LatentLoop(_DeliverLoop):
    qual, field = "TradingEnv._process_latent_events", "_events_latent"


@register
class NonLatentLoop(_DeliverLoop):
    qual, field = "TradingEnv._process_nonlatent_events", "_events_nonlatent"


@register
class TransmitterNext(Contract):
    """ASSUMED summary of Transmitter._next (numpy indexing, itertools; exercised by the bounded shell of C04): either the stream is
    exhausted (StopIteration) or the two batches of the next timestep are returned"""
    relpath, qual = "tradingenv/transmitter.py", "Transmitter._next"
    assumed = True
    props = ("C04",)

    def raises(self, c):
        return {"StopIteration": {"when": c.I.bool("stream_exhausted")}}

    def result(self, c):
        I = c.I
        lat, non = mk_event_seq(I, "latent"), mk_event_seq(I, "nonlatent")
        # every step is an event-bearing timestep: Transmitter._reset takes its steps from the keys of the two partitions, and a
        # key exists only because _create_partitions appended an event under it (part of the ASSUMED summary)
        I.assume(I.heap[lat.oid]["len"] + I.heap[non.oid]["len"] > 0)
        # outside the warm-up branch these are the transmitter's own partition lists, returned by reference (verified: steady-state
        # contract): whoever receives them may read and rebind, never write
        I.heap[lat.oid]["borrowed"] = I.heap[non.oid]["borrowed"] = "partition list of the transmitter"
        return (lat, non)


def _attach_next():
    # the summary stays ASSUMED (the warm-up branch of the first step and the content of the lists are not verified); what is verified
    # against the body is the steady-state contract: one grid point per call, in order, StopIteration iff exhausted
    from .transmitter import TransmitterNextSteady
    TransmitterNext.concrete = TransmitterNextSteady()


_attach_next()


@register
class StateCall(Contract):
    """ASSUMED: building the observation raises nothing (its content and bounds are C18's subject)"""
    relpath, qual = "tradingenv/state.py", "IState.__call__"
    assumed = True
    props = ("C18",)

    def result(self, c):
        return Opaque("observation")


# ============================================================================= TradingEnv.step
@register
class Step(Contract):
    relpath, qual = REL_ENV, "TradingEnv.step"
    props = ("C09", "C17", "C08", "C07")
    shards = [[a, b, c, d] for a in (0, 1) for b in (0, 1) for c in (0, 1) for d in (0, 1)]

    def pre_state(self, I):
        kind = ["box", "discrete"][I.choice(2)]
        rw = ["RewardSimpleReturn", "LogReturn"][I.choice(2)]
        with_record = [False, True][I.choice(2)]
        env = mk_env(I, kind, rw, with_record)
        if kind == "box":
            action = act_array(I, z3.Const("submitted", Act))
        else:
            action = In(I.int("submitted")) if I.choice(2) == 0 else I.fl("submitted_f")
        return {"self": env, "action": action}

    def requires(self, c):
        return env_invariant(c.I, c.self)

    # ---- the action that is due at this step (C08: FIFO delay line)
    def due(self, c):
        f = c.old[c.self.oid]
        q = c.old[f["_queue_actions"].oid]
        d = f["_steps_delay"].v
        if c.I.sat_possible(d > 0) and c.I.sat_possible(d == 0):
            c.I.branch(d > 0)
        if not c.I.sat_possible(d > 0):
            return c.action
        return q["at"](d - 1)

    def raises(self, c):
        I = c.I
        f = c.old[c.self.oid]
        old_done = tobool(f["_done"])
        vo = SymBrokerView(I, f["broker"], c.old)
        tr0 = c.old[c.old[f["broker"].oid]["track_record"].oid]
        def unchanged():
            h = I.snapshot()
            vn = SymBrokerView(I, f["broker"], h)
            tr1 = h[h[f["broker"].oid]["track_record"].oid]
            return [PW("positions_unchanged", lambda k: vn.qty(k) == vo.qty(k)),
                    Cl("track_record_unchanged", tr1["_n"].v == tr0["_n"].v),
                    Cl("nothing_executed", z3.BoolVal(not any(t == ("call", "Broker.rebalance") for t in I.trace)))]
        def latched():
            # C09: even when the step escapes through the reward (D6), a decision refused as insolvent has already ended the episode
            if any(t == ("raise", "Broker.rebalance", "EndOfEpisodeError") for t in I.trace):
                return [Cl("insolvent_decision_latches_done", tobool(I.heap[c.self.oid]["_done"]))]
            return []
        due = self.due(c)
        try:
            inside = space_contains(I, f["action_space"], due)
        except Unsupported:
            inside = FALSE
        return {
            # C09: once an episode has ended every further step is refused; nothing else lets EndOfEpisodeError escape
            "EndOfEpisodeError": {"when": old_done, "post": LazyList(unchanged), "known_origins": {"D6": [".calculate"]},
                                  "post_known": LazyList(latched)},
            "ValueError": [
                # C17: an action outside the space is rejected no later than the step at which it is due: no trade, no record
                {"when": z3.And(z3.Not(old_done), z3.Not(inside)), "post": LazyList(unchanged), "modifies": self.modifies(c)},
                # any other ValueError (missing quote while rebalancing or valuing): propagated unchanged (C13)
                {"when": z3.And(z3.Not(old_done), inside), "modifies": self.modifies(c), "post": [], "catch_all": True},
            ],
            # D6 (first step): the reward reads track_record[-1] before any record exists
            "IndexError": {"when": FALSE, "known_origins": {"D6": [".calculate", "TrackRecord.__getitem__"]}, "post_known": LazyList(latched)},
        }

    def modifies(self, c):
        f = c.I.heap[c.self.oid]
        b = f["broker"]
        q, m, l = bmaps(c.I.heap, b)
        books = c.I.heap[f["exchange"].oid]["_books"]
        tr = c.I.heap[b.oid]["track_record"]
        return [("obj", q), ("obj", m), ("obj", l), ("field", b, "_last_accrual"), ("obj", tr), ("obj", f["_queue_actions"]),
                ("field", c.self, "_done"), ("field", c.self, "_now"), ("field", c.self, "_last_event"),
                ("field", c.self, "_events_latent"), ("field", c.self, "_events_nonlatent"),
                ("col", books, "bid_price"), ("col", books, "ask_price"), ("global", "AbstractContract.now")]

    def ensures(self, c):
        I = c.I
        f0 = c.old[c.self.oid]
        h = c.heap()
        f1 = h[c.self.oid]
        q0, q1 = c.old[f0["_queue_actions"].oid], h[f1["_queue_actions"].oid]
        d = f0["_steps_delay"].v
        names = [t[1] for t in I.trace if t[0] == "call"]
        def idx(n):
            return names.index(n) if n in names else -1
        order_ok = 0 <= idx("TradingEnv._process_latent_events") < idx("PortfolioSpace.make_rebalancing_request") \
            < idx("Broker.rebalance") < idx("TradingEnv._process_nonlatent_events")
        res = c.result
        done1 = tobool(f1["_done"])
        tr = I.trace
        first_use = next((i for i, t in enumerate(tr) if t == ("call", "PortfolioSpace.make_rebalancing_request")), None)
        first_write = next((i for i, t in enumerate(tr) if t == ("global_write", "AbstractContract.now") or
                            t == ("call", "TradingEnv._process_latent_events") and False), None)
        clock_ok = first_use is not None and first_write is not None and first_write < first_use
        out = [
            # C10: the process-wide contract clock is (re)written by this environment before anything that may resolve a chain
            Cl("global_clock_defined_before_use", z3.BoolVal(bool(clock_ok))),
            Cl("refused_only_when_done", z3.Not(tobool(f0["_done"]))),
            Cl("effect_order", z3.BoolVal(bool(order_ok))),
            Cl("delay_line_shape", z3.And(q1["len"] == d, q1["maxlen"] == d + 1)),
            Cl("returns_done_flag", z3.BoolVal(isinstance(res, tuple) and len(res) == 4) if not isinstance(res, tuple) else
               (tobool(res[2]) == done1)),
        ]
        # C08: no decision dropped, duplicated or reordered: the queue is shifted by one, the submitted action enters at the front
        def same_action(a, b):
            if isinstance(a, In) and isinstance(b, In):
                return a.v == b.v
            if isinstance(a, Obj) and isinstance(b, Obj) and "act" in I.heap.get(a.oid, {}) and "act" in I.heap.get(b.oid, {}):
                return I.heap[a.oid]["act"] == I.heap[b.oid]["act"]
            return z3.BoolVal(a is b)
        out.append(PWI("fifo_shift", lambda i: z3.Implies(z3.And(i >= 1, i < d), same_action(q1["at"](i), q0["at"](i - 1)))))
        out.append(Cl("fifo_front", z3.Implies(d > 0, same_action(q1["at"](z3.IntVal(0)), c.action))))
        # C09: a decision arriving at an insolvent account executes nothing and ends the episode
        reb_raised = any(t == ("raise", "Broker.rebalance", "EndOfEpisodeError") for t in I.trace)
        if reb_raised:
            out.append(Cl("done_on_insolvent_decision", done1))
        # C07: the decision is stamped with the time of the latest event processed before its execution (the clock after the latent
        # events of this step), not with the time at which the step began
        lat = [t for t in I.trace if t[0] == "events_delivered" and t[1] == "_events_latent"]
        rbs = [t for t in I.trace if t[0] == "rebalance_request"]
        if lat and rbs and lat[0][2] is not None:
            out.append(Cl("decision_stamped_with_the_latest_event_before_execution", rbs[0][1] == lat[0][2]))
        # the invariant assumed at entry holds again at exit (so it holds at every step of an episode once reset establishes it)
        for x in env_invariant(I, c.self):
            x.name = "invariant_preserved::" + x.name
            out.append(x)
        return out


ev_time = z3.Function("ev_time", Act, RealS)


def event_time(heap, ev):
    if isinstance(ev, ActV):
        return ev_time(ev.t)
    return lift_fl(heap[ev.oid]["time"]).v


def same_event(a, b):
    if isinstance(a, ActV) and isinstance(b, ActV):
        return a.t == b.t
    if isinstance(a, Obj) and isinstance(b, Obj):
        return z3.BoolVal(a.oid == b.oid)
    return z3.BoolVal(a is b)


# ============================================================================= event dispatch (C04)
from pyvc.contract import LoopBodyContract


class ObservedEvents:
    """observer._observed_events: {event class name: callback name}; whether this observer subscribes to the event's type is
    an arbitrary boolean of the observer"""

    def __init__(self, observes):
        self.observes = observes

    def py_contains(self, I, item):
        if not isinstance(item, str):
            raise Unsupported("event class name %r" % (item,))
        return self.observes

    def py_getitem(self, I, k):
        return CallbackName(k)


class CallbackName:
    def __init__(self, event_cls):
        self.event_cls = event_cls

    def py_attr_of(self, I, obj):
        return Callback(obj, self.event_cls)


class Callback:
    def __init__(self, obj, event_cls):
        self.obj, self.event_cls = obj, event_cls

    def py_call(self, I, args, kwargs):
        I.trace.append(("callback", self.obj.oid, self.event_cls, args[0].oid if isinstance(args[0], Obj) else None))
        return None


@register
class DispatchBody(LoopBodyContract):
    """C04: an event is handed exactly once to each observer subscribed to its type (and to no other), which is then stamped
    with the event's time"""
    relpath, qual, ordinal = "tradingenv/events.py", "IEvent.notify", 0
    props = ("C04",)

    def pre_env(self, I):
        ev = I.new_rec("EventNBBO", time=I.tm("event_time"))
        obs = I.new_rec("Observer", _observed_events=ObservedEvents(I.bool("subscribed")), last_update=None,
                        _nr_callbacks=In(I.int("nr_callbacks")))
        return {"self": ev, "observer": obs, "observers": Opaque("observers")}

    def ensures(self, c):
        I = c.I
        sub = c.old[c.observer.oid]["_observed_events"].observes
        calls = [t for t in I.trace if t[0] == "callback"]
        f0, f1 = c.old[c.observer.oid], c.new[c.observer.oid]
        t = c.old[c.self.oid]["time"].v
        out = [Cl("no_exception", z3.BoolVal(c.exc is None))]
        if calls:
            out += [Cl("callback_iff_subscribed", sub),
                    Cl("exactly_once_with_this_event", z3.BoolVal(len(calls) == 1 and calls[0][1] == c.observer.oid and calls[0][3] == c.self.oid
                                                                  and calls[0][2] == "EventNBBO")),
                    Cl("stamped", z3.And(z3.BoolVal(isinstance(f1["last_update"], Fl)), lift_fl(f1["last_update"]).v == t
                                         if isinstance(f1["last_update"], Fl) else FALSE, f1["_nr_callbacks"].v == f0["_nr_callbacks"].v + 1))]
        else:
            out += [Cl("callback_iff_subscribed", z3.Not(sub)),
                    Cl("untouched", z3.And(z3.BoolVal(f1["last_update"] is None), f1["_nr_callbacks"].v == f0["_nr_callbacks"].v))]
        return out


@register
class EventDispatch(Contract):
    """ASSUMED summary of IEvent.notify over the whole observer tuple (its loop body is verified: DispatchBody): raises nothing"""
    relpath, qual = "tradingenv/events.py", "IEvent.notify"
    assumed = True
    props = ("C04",)

    def havoc(self, c):
        c.I.trace.append(("dispatch", c.self.oid if isinstance(c.self, Obj) else None))


@register
class NotifyClock(Contract):
    """C04: while an event is dispatched the environment clock and the process-wide contract clock are the event's time; a new-date
    notification (stamped with the previous event's time) is sent first iff the calendar date changed; the event becomes the
    last event."""
    relpath, qual = REL_ENV, "TradingEnv.notify"
    props = ("C04", "C10")

    def pre_state(self, I):
        has_last = I.choice(2) == 1
        last = I.new_rec("EventNBBO", time=I.tm("last_time")) if has_last else None
        ev = I.new_rec("EventNBBO", time=I.tm("event_time"))
        env = I.new_rec("TradingEnv", _last_event=last, _now=I.tm("now0"), _observers=Opaque("observers"), broker=I.new_rec("Broker"))
        return {"self": env, "event": ev}

    def requires(self, c):
        h = c.I.snapshot()
        f = h[c.self.oid]
        le = f.get("_last_event")
        now = f.get("_now")
        out = []
        if now is not None and le is not None:
            # C04 (log monotone): nothing is notified with a stamp before the clock; the clock is the last event's stamp
            out.append(Cl("not_before_the_clock", event_time(h, c.event) >= lift_fl(now).v))
            out.append(Cl("clock_is_last_event_time", event_time(h, le) == lift_fl(now).v))
        return out

    def modifies(self, c):
        return [("field", c.self, "_now"), ("field", c.self, "_last_event"), ("field", c.self, "_g_delivered"), ("global", "AbstractContract.now")]

    def havoc(self, c):
        I = c.I
        if "_g_delivered" in c.old[c.self.oid]:
            I.fset(c.self, "_g_delivered", In(c.old[c.self.oid]["_g_delivered"].v + 1))
        t = Tm(event_time(c.old, c.event))
        I.fset(c.self, "_now", t)
        I.fset(c.self, "_last_event", c.event)
        I.__dict__.setdefault("class_attrs", {})[("AbstractContract", "now")] = t
        I.trace.append(("global_write", "AbstractContract.now"))
        I.wrote(-1, "AbstractContract.now")
        I.trace.append(("notify", getattr(c.event, "cls", "?"), c.event))

    def ensures(self, c):
        I = c.I
        if c.callsite:
            return []
        f0, f1 = c.old[c.self.oid], c.heap()[c.self.oid]
        t = c.old[c.event.oid]["time"].v
        last = f0["_last_event"]
        new_date = FALSE if last is None else z3.ToInt(c.old[last.oid]["time"].v / 86400) != z3.ToInt(t / 86400)
        tr = I.trace
        disp = [i for i, x in enumerate(tr) if x[0] == "dispatch"]
        inner = [i for i, x in enumerate(tr) if x == ("call", "TradingEnv.notify")]
        gw = [i for i, x in enumerate(tr) if x == ("global_write", "AbstractContract.now")]
        clock_at_dispatch = bool(disp) and bool(gw) and gw[-1] < disp[-1] and (not inner or inner[-1] < gw[-1])
        out = [
            Cl("clock", z3.And(z3.BoolVal(isinstance(f1["_now"], Fl)), lift_fl(f1["_now"]).v == t if isinstance(f1["_now"], Fl) else FALSE)),
            Cl("global_clock", z3.BoolVal(("AbstractContract", "now") in I.__dict__.get("class_attrs", {})) if True else TRUE),
            Cl("clock_set_after_new_date_and_before_dispatch", z3.BoolVal(clock_at_dispatch)),
            Cl("last_event", z3.BoolVal(f1["_last_event"] is c.event or (isinstance(f1["_last_event"], Obj) and f1["_last_event"].oid == c.event.oid))),
            Cl("dispatched_once", z3.BoolVal(len([x for x in tr if x == ("dispatch", c.event.oid)]) == 1)),
            Cl("new_date_iff_date_changed", z3.BoolVal(bool(inner)) == new_date),
        ]
        ga = I.__dict__.get("class_attrs", {}).get(("AbstractContract", "now"))
        if ga is not None:
            out.append(Cl("global_clock_is_event_time", lift_fl(ga).v == t))
        return out


