"""TradingEnv.reset (C07/C08/C09/C10/C17 lemma): a reset establishes the environment invariant that every step assumes at entry
and re-establishes at exit, so the invariant holds at every step of every episode."""
import z3
from pyvc.vals import *
from pyvc.engine import Unsupported
from pyvc.models import sym_seq
from pyvc.contract import Contract, Cl, PW, PWI, Ctx
from . import register, REGISTRY
from ._spec import *
from .env import mk_env, env_invariant, mk_event_seq, REL_ENV


CASH_USD = z3.Const("Cash()", K)


def construct_cash(I, args, kwargs):
    """Cash() with the default symbol: one fixed cash key (contracts compare by class and symbol). TRUSTED model of the constructor."""
    if args or kwargs:
        raise Unsupported("Cash(%r)" % (args,))
    I.add_key(CASH_USD)
    I.assume(z3.And(is_cash(CASH_USD), z3.Not(is_rate(CASH_USD)), sh(CASH_USD) == CASH_USD))
    return KeyV(CASH_USD)


REGISTRY["construct:Cash"] = construct_cash


def sorted_events(I, args, kwargs):
    """sorted(list of events): TRUSTED model of the builtin (stable merge sort: a permutation of its input whose neighbours satisfy
    not (b < a)); that `<` on events means `earlier stamp` is not trusted: IEvent.__lt__ is executed on two arbitrary events."""
    from .env import ev_time
    if kwargs or len(args) != 1 or not (isinstance(args[0], Obj) and args[0].kind == "seq" and "at" in I.heap[args[0].oid]):
        raise Unsupported("sorted(%r, %r)" % (args, kwargs))
    ta, tb = I.tm("lt_a").v, I.tm("lt_b").v
    ea, eb = I.new_rec("IEvent", time=Tm(ta)), I.new_rec("IEvent", time=Tm(tb))
    r = I.call_repo("IEvent", "__lt__", ea, [eb])
    I.oblige("%s::sorted::IEvent.__lt__::orders_by_stamp" % I.frame().qual, tobool(r) == (ta < tb), kind="vc")
    src = I.heap[args[0].oid]
    out = mk_event_seq(I, "sorted")
    p = I.heap[out.oid]
    I.assume(p["len"] == src["len"])
    at, n = p["at"], p["len"]
    I.assume_pwi(lambda i: z3.Implies(z3.And(0 <= i, i + 1 < n), ev_time(at(i).t) <= ev_time(at(i + 1).t)))
    return out


REGISTRY["builtin:sorted"] = sorted_events


def sort_in_place(I, o, args, kwargs):
    """list.sort() on a list of events: same TRUSTED model as sorted(), applied to the object itself"""
    out = sorted_events(I, [o], kwargs)
    p, q = I.heap[o.oid], I.heap[out.oid]
    p["at"], p["len"] = q["at"], q["len"]
    I.wrote(o.oid, "items")
    return None


REGISTRY["seqmethod:sort"] = sort_in_place


@register
class StateReset(Contract):
    """ASSUMED: IState.reset only rewires the state object (exchange, action space, broker) and raises nothing"""
    relpath, qual = "tradingenv/state.py", "IState.reset"
    assumed = True
    props = ("C10",)

    def modifies(self, c):
        return [("obj", c.self)]


@register
class TransmitterReset(Contract):
    """ASSUMED summary of Transmitter._reset (numpy masks, sampling of the start): touches only the transmitter"""
    relpath, qual = "tradingenv/transmitter.py", "Transmitter._reset"
    assumed = True
    props = ("C04", "C15")

    def modifies(self, c):
        return [("obj", c.self)]


CONFIG = ("fees_nonneg", "spec_regime", "reward_shape_parameters", "markup", "pow_axioms", "sh_idempotent", "space_threshold", "table_width")


@register
class Reset(Contract):
    relpath, qual = REL_ENV, "TradingEnv.reset"
    props = ("C07", "C08", "C09", "C10", "C17")
    shards = [[a, b] for a in (0, 1) for b in (0, 1)]

    def pre_state(self, I):
        kind = ["box", "discrete"][I.choice(2)]
        rw = ["RewardSimpleReturn", "LogReturn"][I.choice(2)]
        env = mk_env(I, kind, rw, False)          # the state left behind by any earlier episode: arbitrary
        I.fset(I.heap[env.oid]["state"], "features", None)
        return {"self": env, "fold": Opaque("fold"), "episode_length": None}

    def requires(self, c):
        f = c.I.heap[c.self.oid]
        sp = c.I.heap[f["action_space"].oid]
        k = sp["base_currency"].t
        cfg = [Cl("space_threshold", lift_fl(sp["_margin"]).v >= 0)]
        if f["action_space"].cls == "BoxPortfolio":
            nc = c.I.heap[sp["contracts"].oid]["len"]
            cfg.append(PWI("zero_within_bounds", lambda i: z3.Implies(z3.And(0 <= i, i < nc), z3.And(sp["_low"](i) <= 0, 0 <= sp["_high"](i)))))   # the null action must be in the space
        # configuration (frozen at construction): the property's quantifier on fees, contract specs and reward parameters
        cfg += [x for x in env_invariant(c.I, c.self) if x.name in CONFIG]
        return cfg + [Cl("base_currency_is_the_default_cash", k == CASH_USD),        # reset quotes Cash() at 1/1, nothing else
                Cl("base_currency_is_cash", z3.And(is_cash(k), static_key(k), mr(k) == 0, cr(k) == 1, mult(k) == 1)),
                PW("one_cash_key", lambda x: z3.Implies(is_cash(x), x == k))]

    def modifies(self, c):
        f = c.I.heap[c.self.oid]
        return [("obj", c.self), ("obj", f["state"]), ("obj", f["_transmitter"]), ("global", "AbstractContract.now")]

    def raises(self, c):
        # an empty fold: Transmitter._next has nothing to return and reset lets its StopIteration through (no step can follow)
        # (its only admitted origin; when it happens is decided by Transmitter._reset/_next, which are ASSUMED summaries)
        when = c.I.bool("fold_is_empty") if getattr(c, "callsite", False) else TRUE
        return {"StopIteration": {"when": when, "catch_all": True, "post": [], "modifies": self.modifies(c)}}

    def ensures(self, c):
        I = c.I
        out = []
        for x in env_invariant(I, c.self):
            x.name = "invariant_established::" + x.name
            out.append(x)
        h = c.heap()
        f = h[c.self.oid]
        b = f["broker"]
        bf = h[b.oid]
        v = SymBrokerView(I, b, h)
        tr = h[bf["track_record"].oid]
        out += [
            # C07/C10: nothing of an earlier episode survives in the account
            Cl("fresh_account", z3.And(tr["_n"].v == 0, z3.BoolVal(tr["_last_record"] is None), z3.BoolVal(bf["_last_accrual"] is None),
                                       v.qty(v.cash) == lift_fl(c.old[c.self.oid]["_initial_cash"]).v)),
            PW("no_positions", lambda k: z3.Implies(k != v.cash, z3.And(v.qty(k) == 0, v.margin(k) == 0))),
            Cl("broker_wired_to_the_new_exchange", z3.BoolVal(isinstance(bf["exchange"], Obj) and isinstance(f["exchange"], Obj)
                                                             and bf["exchange"].oid == f["exchange"].oid and f["exchange"].oid not in c.old)),
        ]
        # C09: a new episode is open unless the fold holds a single timestep (the stream ran out while reset was fetching the next batch)
        exs = [t[1] for t in I.trace if t[0] == "stream_exhausted"]
        out.append(Cl("done_iff_the_stream_ran_out", (tobool(f["_done"]) == exs[-1]) if exs else FALSE))
        # C08: while the delay line fills, null actions are executed: the queue holds exactly d of them
        q = h[f["_queue_actions"].oid]
        d = f["_steps_delay"].v
        n_c = h[h[f["action_space"].oid]["contracts"].oid]["len"] if f["action_space"].cls == "BoxPortfolio" else None
        def null_at(i):
            a = q["at"](i)
            if isinstance(a, In):
                return a.v == 0
            if isinstance(a, Obj) and "at" in h.get(a.oid, {}):
                pa = h[a.oid]
                j = I.skolem_idx()
                return z3.And(pa["len"] == n_c, z3.Implies(z3.And(0 <= j, j < n_c), z3.And(z3.Not(pa["at"](j).nan), pa["at"](j).v == 0)))
            return FALSE
        out.append(PWI("delay_line_holds_null_actions", lambda i: z3.Implies(z3.And(0 <= i, i < d), null_at(i))))
        return out

    def perturbed(self, c):
        h = c.heap()
        tr = h[h[h[c.self.oid]["broker"].oid]["track_record"].oid]
        return [Cl("a_record_survives", tr["_n"].v >= 1)]
