"""Contracts for tradingenv/broker/rebalancing.py: Rebalancing.make_trades (C03, C12, C13)."""
import z3
from pyvc.vals import *
from pyvc import ghost
from pyvc.engine import Unsupported
from pyvc.models import trunc
from pyvc.contract import Contract, Cl, PW, Ctx
from pyvc.loops import LoopContract, keyed_list, rows_empty
from . import register, REGISTRY
from ._spec import *
from .broker import bmaps, missing_liq, EquityFam, LazyList
from .allocation import as_map, mk_alloc, alloc_wf, acq_fl

REL = "tradingenv/broker/rebalancing.py"
TRADE_FIELDS = ["contract", "time", "quantity", "bid_price", "ask_price", "acq_price", "notional", "cost_of_cash",
                "cost_of_commissions", "cost_of_spread"]


def mk_rebalancing(I, measure, absolute=True, fractional=True):
    a = mk_alloc(I, "Weights" if measure == "weight" else "NrContracts", "target")
    return I.new_rec("Rebalancing", allocation=a, absolute=absolute, fractional=fractional, margin=I.fl("threshold"),
                     time=I.fl("rb_time"), profit_on_idle_cash=Opaque("..."), context_pre=Opaque("..."),
                     trades=Opaque("..."), context_post=Opaque("..."))


class TradeSpec:
    """the trades a rebalance must emit, as functions of the pre-state (C03 + C12), evaluated at a key"""

    def __init__(self, I, heap, rb, broker):
        self.I, self.h, self.rb, self.b = I, heap, rb, broker
        f = heap[rb.oid]
        self.alloc = f["allocation"]
        self.weights_mode = self.alloc.cls == "Weights"
        self.absolute, self.fractional = f["absolute"], f["fractional"]
        if not isinstance(self.absolute, bool) or not isinstance(self.fractional, bool):
            raise Unsupported("symbolic rebalancing flags")
        self.margin = f["margin"].v
        self.time = f["time"]
        m = as_map(heap, self.alloc)
        self.aget, self.adom = heap[m.oid]["get"], heap[m.oid]["dom"]
        self.v = SymBrokerView(I, broker, heap)
        self.E = ghost.gsum(I, EquityFam(broker), heap)
        fees = heap[heap[broker.oid]["fees"].oid]
        self.fixed, self.prop = fees["fixed"].v, fees["proportional"].v

    # target in numbers of contracts
    @keymemo
    def tgt(self, k):
        a = self.aget(k)
        if self.weights_mode:
            p = acq_fl(self.v, k, a.v)
            val = Fl(a.v * self.E / p.v / mult(k), p.nan)
        else:
            val = Fl(a.v)
        return val, z3.And(self.adom(k), z3.Or(val.nan, val.v != 0))

    @keymemo
    def hold(self, k):
        q = self.v.qty(k)
        return Fl(q), z3.And(self.v.in_qty(k), z3.Not(is_cash(k)), q != 0)

    @keymemo
    def imb(self, k):
        t, tin = self.tgt(k)
        if not self.absolute:
            return t, tin
        h, hin = self.hold(k)
        val = Fl(z3.If(tin, t.v, 0) - z3.If(hin, h.v, 0), z3.simplify(z3.And(tin, t.nan)))
        return val, z3.And(z3.Or(tin, hin), z3.Not(is_cash(k)), z3.Or(val.nan, val.v != 0))

    @keymemo
    def wimb(self, k):
        q, _ = self.imb(k)
        p = acq_fl(self.v, k, q.v)
        return Fl(mult(k) * q.v * p.v / self.E, z3.simplify(z3.Or(p.nan, q.nan)))

    @keymemo
    def quantity(self, k):
        q, _ = self.imb(k)
        return q.v if self.fractional else z3.ToReal(trunc(q.v))

    @keymemo
    def emitted(self, k):
        """C12: a trade iff the imbalance is non-zero and (|imbalance weight| >= threshold or the contract is held
        but absent from the target); whole lots: truncated toward zero, sub-lot imbalances skipped"""
        q, qin = self.imb(k)
        w = self.wimb(k)
        below = z3.And(z3.Not(w.nan), absr(w.v) < self.margin)
        return z3.And(qin, z3.Not(q.nan), self.quantity(k) != 0, z3.Not(z3.And(below, self.adom(k))))

    def emitted_modulo_quote(self, k):
        return self.emitted(k)

    @keymemo
    def rejects(self, k):
        return z3.Or(self.v.bid_nan(k), self.v.ask_nan(k))

    @keymemo
    def fields(self, k):
        q = self.quantity(k)
        b, a = self.v.bid(k), self.v.ask(k)
        acqp = z3.If(q > 0, a, b)
        notional = acqp * q * mult(k)
        return {"time": self.time.v, "quantity": q, "bid_price": b, "ask_price": a, "acq_price": acqp,
                "notional": notional, "cost_of_cash": notional * cr(k),
                "cost_of_commissions": self.fixed + absr(notional) * self.prop,
                "cost_of_spread": absr(q) * mult(k) * (a - b)}


@register
class MakeTrades(Contract):
    relpath, qual = REL, "Rebalancing.make_trades"
    props = ("C03", "C12", "C13")
    shards = [[a, b, c] for a in (0, 1) for b in (0, 1) for c in (0, 1)]       # measure x fractional x first body decision

    def pre_state(self, I):
        measure = ["weight", "nr-contracts"][I.choice(2)]
        fractional = [True, False][I.choice(2)]
        b = mk_broker(I)
        return {"self": mk_rebalancing(I, measure, True, fractional), "broker": b}

    def requires(self, c):
        I = c.I
        h = I.snapshot()
        rb = h[c.self.oid]
        m = as_map(h, rb["allocation"])
        return broker_requires(I, c.broker) + [
            alloc_wf(I, rb["allocation"]),
            PW("finite_targets", lambda k: z3.Implies(h[m.oid]["dom"](k), z3.Not(h[m.oid]["get"](k).nan))),
            Cl("threshold_nonneg", z3.And(z3.Not(rb["margin"].nan), rb["margin"].v >= 0)),
        ]

    def spec(self, c):
        if "spec" not in c.ghost:
            c.ghost["spec"] = TradeSpec(c.I, c.old, c.self, c.broker)
        return c.ghost["spec"]

    def conds(self, c):
        I = c.I
        S = self.spec(c)
        tag = ghost.heap_tag(I, c.old)
        missing = exists_key(I, "missing_liq@%s" % tag, lambda k: missing_liq(S.v, k))
        nan_imb = exists_key(I, "nan_imbalance@%s" % tag, lambda k: z3.And(S.imb(k)[1], S.imb(k)[0].nan))
        rejected = exists_key(I, "trade_without_quote@%s" % tag,
                              lambda k: z3.And(S.imb(k)[1], z3.Not(S.imb(k)[0].nan), S.quantity(k) != 0,
                                               z3.Not(z3.And(z3.Not(S.wimb(k).nan), absr(S.wimb(k).v) < S.margin, S.adom(k))),
                                               S.rejects(k)))
        return S, missing, nan_imb, rejected

    def nlvc(self, c):
        b = Ctx(c.I, {"self": c.broker, "raise_if_broke": True})
        b.old, b.new, b.callsite = c.old, c.new, c.callsite
        return b

    def raises(self, c):
        """C13: fails loudly, and before any trade exists, when a needed quote is missing"""
        I = c.I
        S, missing, nan_imb, rejected = self.conds(c)
        nlv = REGISTRY["Broker.net_liquidation_value"]
        base = nlv.raises(self.nlvc(c))
        mods = nlv.modifies(self.nlvc(c))
        vo = S.v
        def post():
            vn = SymBrokerView(I, c.broker, I.snapshot())
            return [PW("positions_unchanged", lambda k: z3.Implies(k != vo.cash, vn.qty(k) == vo.qty(k))),
                    Cl("equity_preserved", ghost.gsum(I, EquityFam(c.broker), None) == ghost.gsum(I, EquityFam(c.broker), c.old)),
                    PW("wf_preserved", lambda k: wf_at(vn, k)), Cl("cash_ok", cash_ok(vn)),
                    PW("static_keys", lambda k: z3.Implies(z3.Or(vn.in_qty(k), vn.in_margins(k), vn.has_last(k)), static_key(k)))]
        return {
            "ValueError": {"when": z3.Or(missing, z3.And(S.E > 0, z3.Or(nan_imb, rejected))), "modifies": mods,
                           "post": LazyList(post)},
            "EndOfEpisodeError": {"when": z3.And(z3.Not(missing), S.E <= 0), "modifies": mods, "post": LazyList(post)},
        }

    def modifies(self, c):
        return REGISTRY["Broker.net_liquidation_value"].modifies(self.nlvc(c))

    def result(self, c):
        I = c.I
        S = self.spec(c)
        cols = {"contract": lambda k: KeyV(k)}
        for f in TRADE_FIELDS[1:]:
            cols[f] = (lambda f: lambda k: Fl(S.fields(k)[f]))(f)
        return I.new_obj("objmap", "list", {"cols": cols, "dom": lambda k: S.emitted(k), "rowcls": "Trade", "total": False,
                                             "keyed_list": True})

    def ensures(self, c):
        I = c.I
        S = self.spec(c)
        r = c.result
        h = c.heap()
        if isinstance(r, Obj) and r.kind == "seq" and rows_empty(h, r):
            dom = lambda k: FALSE
            col = None
        elif isinstance(r, Obj) and r.kind == "objmap" and h[r.oid].get("keyed_list"):
            dom = h[r.oid]["dom"]
            col = h[r.oid]["cols"]
        else:
            return [Cl("returns_trades", FALSE)]
        def fields_ok(k):
            if col is None:
                return TRUE
            fs = S.fields(k)
            return z3.And(*[z3.And(z3.Not(lift_fl(col[f](k)).nan), lift_fl(col[f](k)).v == fs[f]) for f in fs])
        out = [
            PW("emit_iff", lambda k: dom(k) == S.emitted(k)),
            PW("trade_fields", lambda k: z3.Implies(S.emitted(k), fields_ok(k))),
            PW("no_cash_no_zero", lambda k: z3.Implies(dom(k), z3.And(z3.Not(is_cash(k)), S.quantity(k) != 0, k != S.v.cash,
                                                                     static_key(k), valid_quote(S.v, k)))),
        ]
        if not S.fractional:
            out.append(PW("whole_lots", lambda k: z3.Implies(dom(k), z3.And(
                z3.ToReal(z3.ToInt(S.quantity(k))) == S.quantity(k), S.quantity(k) != 0,
                absr(S.quantity(k)) <= absr(S.imb(k)[0].v), absr(S.imb(k)[0].v) - absr(S.quantity(k)) < 1,
                S.quantity(k) * S.imb(k)[0].v > 0))))
        if S.absolute and S.fractional:
            # C03: with no threshold every contract whose target differs from the holding is traded by the difference
            out.append(PW("imbalance", lambda k: z3.Implies(z3.And(S.margin == 0, z3.Not(is_cash(k)), z3.Not(S.imb(k)[0].nan)),
                       z3.And(dom(k) == (z3.If(S.tgt(k)[1], S.tgt(k)[0].v, 0) != z3.If(S.hold(k)[1], S.hold(k)[0].v, 0)),
                              z3.Implies(dom(k), S.quantity(k) == z3.If(S.tgt(k)[1], S.tgt(k)[0].v, 0) - S.v.qty(k))))))
        return out + REGISTRY["Broker.net_liquidation_value"].post_state(self.nlvc(c))

    def perturbed(self, c):
        S = self.spec(c)
        r = c.result
        h = c.heap()
        if not (isinstance(r, Obj) and r.kind == "objmap"):
            return []
        dom = h[r.oid]["dom"]
        w = lambda k: S.wimb(k)
        q = lambda k: S.imb(k)
        # threshold applied with <= instead of < must be refuted (boundary |w| == threshold)
        wrong = lambda k: z3.And(q(k)[1], z3.Not(q(k)[0].nan), S.quantity(k) != 0,
                                 z3.Not(z3.And(z3.Not(w(k).nan), absr(w(k).v) <= S.margin, S.adom(k))))
        return [PW("emit_iff_with_threshold_inclusive", lambda k: dom(k) == wrong(k))]

    def witness(self, c):
        I = c.I
        k = I.skolem()
        S = TradeSpec(I, I.snapshot(), c.self, c.broker)
        v = S.v
        return {"q0": v.qty(k), "bid": v.bid(k), "ask": v.ask(k), "bid_nan": v.bid_nan(k), "ask_nan": v.ask_nan(k),
                "mult": mult(k), "mr": mr(k), "cr": cr(k), "target": S.aget(k).v, "in_target": S.adom(k),
                "threshold": S.margin, "cash0": v.qty(v.cash), "margin0": v.margin(k), "has_last": v.has_last(k),
                "last0": v.last(k), "weights_mode": z3.BoolVal(S.weights_mode), "fractional": z3.BoolVal(S.fractional),
                "nlv": S.E}


@register
class MakeTradesLoop(LoopContract):
    qual, ordinal = "Rebalancing.make_trades", 0

    def havoc(self, L):
        I = L.I
        L.env["trades"] = keyed_list(I, "Trade", TRADE_FIELDS, "trades")
        return []

    def inv(self, L):
        I = L.I
        h = L.entry
        rb = h[L.env["self"].oid]
        b = L.env["broker"]
        v = SymBrokerView(I, b, h)
        im = as_map(h, L.env["imbalance"])
        wm = as_map(h, L.env["weights"])
        iget, idom = h[im.oid]["get"], h[im.oid]["dom"]
        wget, wdom = h[wm.oid]["get"], h[wm.oid]["dom"]
        am = as_map(h, rb["allocation"])
        adom = h[am.oid]["dom"]
        margin, fractional = rb["margin"].v, rb["fractional"]
        fees = h[h[b.oid]["fees"].oid]
        trades = L.env["trades"]
        cur = L.cur
        if isinstance(trades, Obj) and trades.kind == "seq":
            tdom, tcol = (lambda k: FALSE), None
        else:
            tdom, tcol = cur[trades.oid]["dom"], cur[trades.oid]["cols"]
        done = L.done
        def qty(k):
            return iget(k).v if fractional else z3.ToReal(trunc(iget(k).v))
        def emitted(k):
            w = wget(k)
            below = z3.And(z3.Not(w.nan), absr(w.v) < margin)
            return z3.And(idom(k), qty(k) != 0, z3.Not(z3.And(below, adom(k))))
        def f(k):
            q = qty(k)
            bb, aa = v.bid(k), v.ask(k)
            acqp = z3.If(q > 0, aa, bb)
            notional = acqp * q * mult(k)
            exp = {"time": rb["time"].v, "quantity": q, "bid_price": bb, "ask_price": aa, "acq_price": acqp, "notional": notional,
                   "cost_of_cash": notional * cr(k), "cost_of_commissions": fees["fixed"].v + absr(notional) * fees["proportional"].v,
                   "cost_of_spread": absr(q) * mult(k) * (aa - bb)}
            ok = TRUE if tcol is None else z3.And(*[z3.And(z3.Not(lift_fl(tcol[n](k)).nan), lift_fl(tcol[n](k)).v == e)
                                                    for n, e in exp.items()])
            em = z3.And(done(k), emitted(k))
            return z3.And(tdom(k) == em, z3.Implies(em, z3.And(ok, z3.Not(v.bid_nan(k)), z3.Not(v.ask_nan(k)), z3.Not(iget(k).nan))))
        return [PW("emitted_so_far", f)]
