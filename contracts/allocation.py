"""Contracts for tradingenv/broker/allocation.py (C03, C12, C13, C17)."""
import z3
from pyvc.vals import *
from pyvc import ghost
from pyvc.engine import Unsupported
from pyvc.contract import Contract, Cl, PW
from pyvc.loops import LoopContract
from . import register
from ._spec import *
from .broker import bmaps, missing_liq, mtm_pointwise, EquityFam, NetLiquidationValue, LazyList

REL = "tradingenv/broker/allocation.py"


def as_map(heap, x):
    """the key->value map behind a dict or a dict-subclass record"""
    if isinstance(x, Obj) and x.kind == "map":
        return x
    if isinstance(x, Obj) and x.kind == "rec" and "_items" in heap[x.oid]:
        return heap[x.oid]["_items"]
    raise Unsupported("not a mapping: %r" % (x,))


def mk_alloc(I, cls, base, may_nan=False):
    m = I.sym_map(base, default=None, may_nan=may_nan)
    return I.new_rec(cls, _items=m)


def alloc_wf(I, a, heap=None):
    """representation invariant established by _Allocation.__init__: no cash, no zeros, static keys"""
    h = heap if heap is not None else I.snapshot()
    m = as_map(h, a)
    return PW("alloc_wf", lambda k: z3.Implies(h[m.oid]["dom"](k), z3.And(
        z3.Not(is_cash(k)), static_key(k),
        z3.Or(h[m.oid]["get"](k).nan, h[m.oid]["get"](k).v != 0))))


@register
class AllocInit(Contract):
    """C12/C17: an allocation never holds the cash contract nor zero entries; keys are statically hashed"""
    relpath, qual = REL, "_Allocation.__init__"
    props = ("C03", "C12", "C17")

    def pre_state(self, I):
        if I.choice(2) == 0:
            m = I.sym_map("mapping", default=None, may_nan=True)
            return {"self": I.new_rec("_Allocation"), "mapping": m, "keys": None, "values": None}
        from .spaces import mk_contract_seq
        from pyvc.models import act_array
        ks = mk_contract_seq(I, "keys")
        return {"self": I.new_rec("_Allocation"), "mapping": None, "keys": ks, "values": act_array(I, z3.Const("values", Act))}

    def requires(self, c):
        h = c.I.snapshot()
        if c.mapping is not None:
            m = as_map(h, c.mapping)
            return [PW("static_keys", lambda k: z3.Implies(h[m.oid]["dom"](k), static_key(k)))]
        if c.keys is None or c.values is None:
            return [Cl("keys_and_values_given", FALSE)]
        ok = isinstance(c.keys, Obj) and "inv" in h[c.keys.oid] and isinstance(c.values, Obj) and "at" in h[c.values.oid]
        return [Cl("contract_sequence_with_distinct_static_hashes", ok)]

    def raises(self, c):
        if c.mapping is not None or c.keys is None:
            return {}
        h = c.old
        return {"ValueError": {"when": h[c.keys.oid]["len"] != h[c.values.oid]["len"]}}

    def filtered(self, c):
        h = c.old
        if c.mapping is not None:
            m = as_map(h, c.mapping)
            get, dom = h[m.oid]["get"], h[m.oid]["dom"]
            ndom = lambda k: z3.And(dom(k), z3.Not(is_cash(k)), z3.Or(get(k).nan, get(k).v != 0))
            return get, ndom
        # keys/values: keyed by the static hash of each contract (pairwise distinct), cash and zeros dropped
        pk, pv = h[c.keys.oid], h[c.values.oid]
        n, at, inv, val = pk["len"], pk["at"], pk["inv"], pv["at"]
        def ndom(k):
            j = inv(k)
            return z3.And(j >= 0, j < n, sh(at(j).t) == k, z3.Not(is_cash(at(j).t)), z3.Or(val(j).nan, val(j).v != 0))
        return (lambda k: val(inv(k))), ndom

    def modifies(self, c):
        return [("obj", c.self)]

    def havoc(self, c):
        get, ndom = self.filtered(c)
        c.I.fset(c.self, "_items", c.I.new_map(get, ndom, None, "dict"))

    def ensures(self, c):
        get, ndom = self.filtered(c)
        cur = c.heap()[c.self.oid].get("_items")
        if cur is None:
            return [Cl("items_set", FALSE)]
        h = c.heap()
        return [PW("filter", lambda k: z3.And(
            h[cur.oid]["dom"](k) == ndom(k),
            z3.Implies(ndom(k), z3.And(h[cur.oid]["get"](k).nan == get(k).nan,
                                       z3.Implies(z3.Not(get(k).nan), h[cur.oid]["get"](k).v == get(k).v)))))]


@register
class AllocSub(Contract):
    """pointwise difference of two allocations (missing entries read as 0; zero results dropped)"""
    relpath, qual = REL, "_Allocation.__sub__"
    props = ("C03", "C12")

    def pre_state(self, I):
        return {"self": mk_alloc(I, "NrContracts", "lhs", True), "other": mk_alloc(I, "NrContracts", "rhs", False)}

    def requires(self, c):
        I = c.I
        return [alloc_wf(I, c.self), alloc_wf(I, c.other),
                Cl("same_class", isinstance(c.other, Obj) and c.other.kind == "rec" and c.other.cls == c.self.cls)]

    def diff(self, c):
        h = c.old
        a, b = as_map(h, c.self), as_map(h, c.other)
        ga, da, gb, db = h[a.oid]["get"], h[a.oid]["dom"], h[b.oid]["get"], h[b.oid]["dom"]
        def val(k):
            x = vite(da(k), ga(k), Fl(0))
            y = vite(db(k), gb(k), Fl(0))
            return Fl(x.v - y.v, z3.simplify(z3.Or(x.nan, y.nan)))
        dom = lambda k: z3.And(z3.Or(da(k), db(k)), z3.Not(is_cash(k)), z3.Or(val(k).nan, val(k).v != 0))
        return val, dom

    def result(self, c):
        val, dom = self.diff(c)
        return c.I.new_rec(c.self.cls, _items=c.I.new_map(val, dom, None, "dict"))

    def ensures(self, c):
        r = c.result
        if not (isinstance(r, Obj) and r.kind == "rec" and "_items" in c.heap()[r.oid]):
            return [Cl("returns_allocation", FALSE)]
        val, dom = self.diff(c)
        h = c.heap()
        m = h[r.oid]["_items"]
        return [Cl("class", r.cls == c.self.cls),
                PW("pointwise", lambda k: z3.And(
                    h[m.oid]["dom"](k) == dom(k),
                    z3.Implies(dom(k), z3.And(h[m.oid]["get"](k).nan == val(k).nan,
                                              z3.Implies(z3.Not(val(k).nan), h[m.oid]["get"](k).v == val(k).v)))))]


@register
class AllocSubLoop(LoopContract):
    qual, ordinal = "_Allocation.__sub__", 0

    def havoc(self, L):
        return [("obj", L.env["mapping"], "nan")]

    def inv(self, L):
        h = L.entry
        a, b = as_map(h, L.env["self"]), as_map(h, L.env["other"])
        ga, da, gb, db = h[a.oid]["get"], h[a.oid]["dom"], h[b.oid]["get"], h[b.oid]["dom"]
        mp = L.env["mapping"]
        done = L.done
        def f(k):
            sub = z3.And(db(k), done(k))
            x = vite(da(k), ga(k), Fl(0))
            cur = L.m(mp, k)
            exp_v = z3.If(sub, x.v - gb(k).v, x.v)
            exp_n = z3.If(sub, z3.Or(x.nan, gb(k).nan), x.nan)
            return z3.And(L.mdom(mp, k) == z3.Or(da(k), sub),
                          z3.Implies(z3.Or(da(k), sub), z3.And(cur.nan == exp_n, z3.Implies(z3.Not(exp_n), cur.v == exp_v))))
        return [PW("partial_difference", f)]


# =========================================================================== conversions
def acq_fl(v, k, x):
    """execution-side quote as a float (value, nan flag): ask for purchases, bid for sales, mid when flat"""
    val = acq(v, k, x)
    nan = z3.If(x > 0, v.ask_nan(k), z3.If(x < 0, v.bid_nan(k), z3.Or(v.bid_nan(k), v.ask_nan(k))))
    return Fl(val, z3.simplify(nan))


class _Conversion(Contract):
    """shared shape of Weights._to_nr_contracts / NrContracts._to_weights: value the account (by contract of
    net_liquidation_value), then map every entry through the execution-side quote"""
    props = ("C03", "C12", "C13")
    src_cls = dst_cls = None
    finite_required = True

    def pre_state(self, I):
        b = mk_broker(I)
        return {"self": mk_alloc(I, self.src_cls, "alloc", may_nan=not self.finite_required), "broker": b}

    def requires(self, c):
        I = c.I
        h = I.snapshot()
        m = as_map(h, c.self)
        out = broker_requires(I, c.broker) + [alloc_wf(I, c.self)]
        if self.finite_required:
            out.append(PW("finite_entries", lambda k: z3.Implies(h[m.oid]["dom"](k), z3.Not(h[m.oid]["get"](k).nan))))
        return out

    def any_nan_entry(self, c):
        h = c.old
        m = as_map(h, c.self)
        get, dom = h[m.oid]["get"], h[m.oid]["dom"]
        return exists_key(c.I, "nan_entry#%d@%s" % (m.oid, ghost.heap_tag(c.I, h)), lambda k: z3.And(dom(k), get(k).nan))

    def nlv(self):
        from . import REGISTRY
        return REGISTRY["Broker.net_liquidation_value"]

    def bctx(self, c):
        """the context net_liquidation_value's contract sees"""
        from pyvc.contract import Ctx
        b = Ctx(c.I, {"self": c.broker, "raise_if_broke": True})
        b.old, b.new, b.callsite = c.old, c.new, c.callsite
        return b

    def raises(self, c):
        r = self.nlv().raises(self.bctx(c))
        if not self.finite_required:
            # an entry that is NaN (its execution-side quote was missing upstream) is rejected by acq_price
            E = ghost.gsum(c.I, EquityFam(c.broker), c.old)
            r["ValueError"] = dict(r["ValueError"], when=z3.Or(r["ValueError"]["when"], z3.And(E > 0, self.any_nan_entry(c))))
        return r

    def modifies(self, c):
        return self.nlv().modifies(self.bctx(c))

    def entry(self, c, vo, k, x, nlv):
        raise NotImplementedError

    def mapped(self, c):
        I = c.I
        vo = SymBrokerView(I, c.broker, c.old)
        h = c.old
        m = as_map(h, c.self)
        get, dom = h[m.oid]["get"], h[m.oid]["dom"]
        nlv = ghost.gsum(I, EquityFam(c.broker), c.old)
        val = lambda k: self.entry(c, vo, k, get(k).v, nlv)
        ndom = lambda k: z3.And(dom(k), z3.Or(val(k).nan, val(k).v != 0))
        return val, ndom

    def result(self, c):
        val, ndom = self.mapped(c)
        return c.I.new_rec(self.dst_cls, _items=c.I.new_map(val, ndom, None, "dict"))

    def ensures(self, c):
        r = c.result
        if not (isinstance(r, Obj) and r.kind == "rec" and "_items" in c.heap()[r.oid]):
            return [Cl("returns_allocation", FALSE)]
        val, ndom = self.mapped(c)
        h = c.heap()
        m = h[r.oid]["_items"]
        out = [Cl("class", r.cls == self.dst_cls),
               PW("entries", lambda k: z3.And(
                   h[m.oid]["dom"](k) == ndom(k),
                   z3.Implies(ndom(k), z3.And(h[m.oid]["get"](k).nan == val(k).nan,
                                              z3.Implies(z3.Not(val(k).nan), h[m.oid]["get"](k).v == val(k).v))))),
               alloc_wf(c.I, r, h)]
        return out + self.nlv().post_state(self.bctx(c))


@register
class WeightsToNrContracts(_Conversion):
    """C03: n_c = w_c x NLV / execution-side quote / multiplier (ask for long targets, bid for short ones)"""
    relpath, qual = REL, "Weights._to_nr_contracts"
    src_cls, dst_cls = "Weights", "NrContracts"

    def entry(self, c, vo, k, w, nlv):
        p = acq_fl(vo, k, w)
        return Fl(w * nlv / p.v / mult(k), p.nan)


@register
class NrContractsToWeights(_Conversion):
    relpath, qual = REL, "NrContracts._to_weights"
    src_cls, dst_cls = "NrContracts", "Weights"
    finite_required = False

    def entry(self, c, vo, k, q, nlv):
        p = acq_fl(vo, k, q)
        return Fl(mult(k) * q * p.v / nlv, p.nan)


class _ConvLoop(LoopContract):
    ordinal = 0
    var = None
    con = None

    def havoc(self, L):
        return [("obj", L.env[self.var], "nan")]

    def inv(self, L):
        from . import REGISTRY
        con = REGISTRY[self.con]
        I = L.I
        b = L.env["broker"]
        vo = SymBrokerView(I, b, L.entry)
        h = L.entry
        m = as_map(h, L.env["self"])
        get, dom = h[m.oid]["get"], h[m.oid]["dom"]
        nlv = lift_fl(L.env["nlv"]).v
        out = L.env[self.var]
        done = L.done
        def f(k):
            val = con.entry(None, vo, k, get(k).v, nlv)
            cur = L.m(out, k)
            inn = z3.And(dom(k), done(k))
            return z3.And(L.mdom(out, k) == inn, z3.Implies(inn, z3.Not(get(k).nan)),
                          z3.Implies(inn, z3.And(cur.nan == val.nan, z3.Implies(z3.Not(val.nan), cur.v == val.v))))
        return [PW("converted", f)]


@register
class W2NLoop(_ConvLoop):
    qual, var, con = "Weights._to_nr_contracts", "nr_contracts", "Weights._to_nr_contracts"


@register
class N2WLoop(_ConvLoop):
    qual, var, con = "NrContracts._to_weights", "weights", "NrContracts._to_weights"
