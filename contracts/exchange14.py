"""Contracts for the order-book state machine of tradingenv/exchange.py (C14).

Model of the exchange: a total, column-wise map from book keys to LimitOrderBook rows
(bid/ask price and size, time, is_alive) plus, per key and per history column, a ghost sequence
(length + element function).  Keys are K-terms; `sh` is static hashing at the current clock."""
import z3
from pyvc.vals import *
from pyvc.engine import Unsupported, PyRaise
from pyvc.contract import Contract, Cl, PW, havoc_loc
from . import register
from ._spec import static_key

REL = "tradingenv/exchange.py"
HIST = ["time", "bid_price", "ask_price", "mid_price", "bid_size", "ask_size"]
FL_COLS = ["bid_price", "ask_price", "bid_size", "ask_size"]


class HistVal:
    """value of `book.history` (a defaultdict(list) keyed by the six column names): per name (len, at)"""

    def __init__(self, cols, owner=None):
        self.cols, self.owner = cols, owner        # name -> (len: Int term, at: Int term -> Fl)

    def py_getitem(self, I, k):
        if not isinstance(k, str) or k not in HIST:
            raise Unsupported("history column %r" % (k,))
        return HistList(self, k)


class HistList:
    def __init__(self, hv, name):
        self.hv, self.name = hv, name

    def py_getattr(self, I, attr):
        return BoundMethod(self, attr)

    def py_call_method(self, I, name, args, kwargs):
        if name != "append":
            raise Unsupported("history list method %s" % name)
        if self.hv.owner is None:
            raise Unsupported("append to a detached history")
        m, k = self.hv.owner
        p = I.heap[m.oid]
        ln, at = p["hist"][self.name]
        v = lift_fl(args[0])
        n0 = ln(k)
        p["hist"] = dict(p["hist"])
        p["hist"][self.name] = (lambda x, ln=ln, k=k: z3.If(x == k, ln(k) + 1, ln(x)),
                                lambda x, i, at=at, k=k, n0=n0, v=v: vite(z3.And(x == k, i == n0), v, at(x, i)))
        I.wrote(m.oid, "history")
        return None


def hist_getattr(I, row, attr):
    if attr != "history":
        return None
    p = I.heap[row.m.oid]
    cols = {n: ((lambda ln: ln(row.k))(p["hist"][n][0]), (lambda at: (lambda i: at(row.k, i)))(p["hist"][n][1])) for n in HIST}
    return HistVal(cols, owner=(row.m, row.k))


def hist_setattr(I, row, attr, v):
    if attr != "history":
        return False
    if not isinstance(v, HistVal):
        raise Unsupported("history assigned %r" % (v,))
    p = I.heap[row.m.oid]
    k = row.k
    new = {}
    for n in HIST:
        ln, at = p["hist"][n]
        vl, va = v.cols[n]
        new[n] = ((lambda ln, vl: lambda x: z3.If(x == k, vl, ln(x)))(ln, vl),
                  (lambda at, va: lambda x, i: vite(x == k, va(i), at(x, i)))(at, va))
    p["hist"] = new
    I.wrote(row.m.oid, "history")
    return True


def empty_history(I, args, kwargs):
    """defaultdict(list): every column is the empty list"""
    if len(args) == 1 and isinstance(args[0], Builtin) and args[0].name == "list":
        return HistVal({n: (z3.IntVal(0), lambda i: Fl(0)) for n in HIST})
    if len(args) == 1 and isinstance(args[0], ClassRef) and args[0].name == "LimitOrderBook":
        return fresh_books(I)
    raise Unsupported("defaultdict(%r)" % (args,))


def fresh_books(I):
    """defaultdict(LimitOrderBook) just created: no book exists; a row that is read is a fresh LimitOrderBook() - NaN : NaN, alive,
    empty history (TRUSTED model of LimitOrderBook.__init__'s defaults; LimitOrderBook.update/terminate are verified separately)"""
    cols = {}
    for f in FL_COLS + ["time"]:
        cols[f] = lambda k: Fl(z3.RealVal(0), TRUE)
    cols["is_alive"] = lambda k: TRUE
    hist = {n: ((lambda k: z3.IntVal(0)), (lambda k, i: Fl(z3.RealVal(0), TRUE))) for n in HIST}
    return I.new_obj("objmap", "defaultdict", {"cols": cols, "dom": lambda k: FALSE, "rowcls": "LimitOrderBook", "total": True,
                                               "hist": hist, "getattr_hook": hist_getattr, "setattr_hook": hist_setattr})


def mk_full_exchange(I):
    cols = {}
    for f in FL_COLS + ["time"]:
        fn = I.func("x_" + f, K, RealS)
        nn = I.func("x_" + f + "?nan", K, BoolS)
        cols[f] = (lambda fn, nn: lambda k: Fl(fn(k), nn(k)))(fn, nn)
    alive = I.func("x_alive", K, BoolS)
    cols["is_alive"] = lambda k: alive(k)
    dom = I.func("x_books?dom", K, BoolS)
    hist = {}
    for n in HIST:
        ln = I.func("h_%s?len" % n, K, IntS)
        at = I.func("h_%s" % n, K, IntS, RealS)
        an = I.func("h_%s?nan" % n, K, IntS, BoolS)
        hist[n] = ((lambda ln: lambda k: ln(k))(ln), (lambda at, an: lambda k, i: Fl(at(k, i), an(k, i)))(at, an))
        I.assume_pw((lambda ln: lambda k: ln(k) >= 0)(ln))
    books = I.new_obj("objmap", "defaultdict", {"cols": cols, "dom": lambda k: dom(k), "rowcls": "LimitOrderBook", "total": True,
                                                 "hist": hist, "getattr_hook": hist_getattr, "setattr_hook": hist_setattr})
    # representation invariant of defaultdict(LimitOrderBook): an absent row reads as a fresh book: NaN : NaN, alive, empty history
    def fresh(k):
        c = I.heap[books.oid]["cols"]
        return z3.Implies(z3.Not(dom(k)), z3.And(c["bid_price"](k).nan, c["ask_price"](k).nan, c["bid_size"](k).nan,
                                                 c["ask_size"](k).nan, alive(k), *[hist[n][0](k) == 0 for n in HIST]))
    I.assume_pw(fresh)
    I.assume_pw(lambda k: sh(sh(k)) == sh(k))
    return I.new_rec("Exchange", _books=books, last_update=None)


def mk_nbbo(I, name="ev"):
    return I.new_rec("EventNBBO", time=I.fl(name + "_time"), contract=KeyV(I.key(name + "_c")),
                     bid_price=I.fl(name + "_bid", True), ask_price=I.fl(name + "_ask", True),
                     bid_size=I.fl(name + "_bsz", True), ask_size=I.fl(name + "_asz", True),
                     mid_price=I.fl(name + "_mid", True))


class BookView:
    def __init__(self, heap, ex=None, m=None):
        self.p = heap[m.oid] if m is not None else heap[heap[ex.oid]["_books"].oid]

    def col(self, f, k):
        return self.p["cols"][f](k)

    def alive(self, k):
        return self.p["cols"]["is_alive"](k)

    def dom(self, k):
        return self.p["dom"](k)

    def hlen(self, n, k):
        return self.p["hist"][n][0](k)

    def hat(self, n, k, i):
        return self.p["hist"][n][1](k, i)


def same_fl(a, b):
    a, b = lift_fl(a), lift_fl(b)
    return z3.And(a.nan == b.nan, z3.Implies(z3.Not(a.nan), a.v == b.v))


def row_unchanged(o, n, k):
    i = z3.Int("i*")
    return z3.And(*[same_fl(n.col(f, k), o.col(f, k)) for f in FL_COLS + ["time"]], n.alive(k) == o.alive(k),
                  *[z3.And(n.hlen(h, k) == o.hlen(h, k)) for h in HIST])


def hist_prefix_kept(o, n, k, i):
    """every element already recorded stays where it was"""
    return z3.And(*[z3.Implies(z3.And(i >= 0, i < o.hlen(h, k)), same_fl(n.hat(h, k, i), o.hat(h, k, i))) for h in HIST])


def event_fields(heap, ev):
    f = heap[ev.oid]
    mid = Fl((lift_fl(f["ask_price"]).v + lift_fl(f["bid_price"]).v) / 2,
             z3.simplify(z3.Or(lift_fl(f["ask_price"]).nan, lift_fl(f["bid_price"]).nan)))
    # an event built before the clock is defined (TradingEnv.reset: EventNBBO(self.now(), ...) with now() None) carries no time:
    # the time cell is read as "no value" (the NaN flag of the float domain)
    return {"time": nanval() if f["time"] is None else f["time"], "bid_price": f["bid_price"], "ask_price": f["ask_price"], "mid_price": mid,
            "bid_size": f["bid_size"], "ask_size": f["ask_size"]}


def updated_row(o, n, k, ev):
    """C14: the book reports the quote of the event and every history column grew by exactly that quote"""
    return z3.And(*[same_fl(n.col(f, k), ev[f]) for f in FL_COLS + ["time"]], n.alive(k) == o.alive(k),
                  *[z3.And(n.hlen(h, k) == o.hlen(h, k) + 1, same_fl(n.hat(h, k, o.hlen(h, k)), ev[h])) for h in HIST])


# ============================================================================= LimitOrderBook
def book_row_full(I):
    ex = mk_full_exchange(I)
    kb = I.key("kb")
    return ex, RowRef(I.heap[ex.oid]["_books"], kb, "LimitOrderBook")


@register
class LOBUpdate(Contract):
    relpath, qual = REL, "LimitOrderBook.update"
    props = ("C14",)

    def pre_state(self, I):
        ex, row = book_row_full(I)
        self._ex = None
        return {"self": row, "event": mk_nbbo(I), "_exchange": ex}

    def modifies(self, c):
        return [("obj", c.self.m)]

    def views(self, c):
        return BookView(c.old, m=c.self.m), BookView(c.heap(), m=c.self.m)

    def havoc(self, c):
        I = c.I
        k = c.self.k
        ev = event_fields(c.old, c.event)
        for f in FL_COLS + ["time"]:
            I.colset(c.self.m, f, k, lift_fl(ev[f]))
        p = I.heap[c.self.m.oid]
        hist = dict(p["hist"])
        for n in HIST:
            ln, at = hist[n]
            n0 = ln(k)
            hist[n] = ((lambda ln, k: lambda x: z3.If(x == k, ln(k) + 1, ln(x)))(ln, k),
                       (lambda at, k, n0, v: lambda x, i: vite(z3.And(x == k, i == n0), v, at(x, i)))(at, k, n0, lift_fl(ev[n])))
        p["hist"] = hist
        I.wrote(c.self.m.oid, "history")

    def ensures(self, c):
        o, n = self.views(c)
        k = c.self.k
        ev = event_fields(c.old, c.event)
        i = z3.Int("i*")
        return [Cl("fields_and_history", updated_row(o, n, k, ev)),
                Cl("history_prefix_kept", hist_prefix_kept(o, n, k, i)),
                PW("other_books_untouched", lambda x: z3.Implies(x != k, z3.And(row_unchanged(o, n, x), hist_prefix_kept(o, n, x, i))))]


@register
class LOBTerminate(Contract):
    """after a contract is discontinued its book reports no price and is dead; its history is preserved"""
    relpath, qual = REL, "LimitOrderBook.terminate"
    props = ("C14", "C13")

    def pre_state(self, I):
        ex, row = book_row_full(I)
        ev = I.new_rec("EventContractDiscontinued", time=I.fl("d_time"), contract=KeyV(I.key("d_c")))
        return {"self": row, "event": ev, "_exchange": ex}

    def modifies(self, c):
        return [("obj", c.self.m)]

    views = LOBUpdate.views

    def havoc(self, c):
        I = c.I
        k = c.self.k
        for f in FL_COLS:
            I.colset(c.self.m, f, k, nanval())
        I.colset(c.self.m, "time", k, c.old[c.event.oid]["time"])
        I.colset(c.self.m, "is_alive", k, FALSE)

    def ensures(self, c):
        o, n = self.views(c)
        k = c.self.k
        i = z3.Int("i*")
        t = c.old[c.event.oid]["time"]
        return [Cl("dead", z3.And(*[lift_fl(n.col(f, k)).nan for f in FL_COLS], z3.Not(n.alive(k)), same_fl(n.col("time", k), t))),
                Cl("history_preserved", z3.And(*[n.hlen(h, k) == o.hlen(h, k) for h in HIST], hist_prefix_kept(o, n, k, i))),
                PW("other_books_untouched", lambda x: z3.Implies(x != k, z3.And(row_unchanged(o, n, x), hist_prefix_kept(o, n, x, i))))]


# ============================================================================= Exchange
@register
class ExchangeGetItem(Contract):
    """a contract key addresses the book of its static hash (for a chain: its current lead contract); a missing book is created
    empty (NaN : NaN, alive)"""
    relpath, qual = REL, "Exchange.__getitem__"
    props = ("C14", "C11")

    def pre_state(self, I):
        return {"self": mk_full_exchange(I), "key": KeyV(I.key("key"))}

    def result(self, c):
        books = c.I.heap[c.self.oid]["_books"]
        k = sh(c.key.t)
        c.I.add_key(k)
        p = c.I.heap[books.oid]
        od = p["dom"]
        p["dom"] = lambda x, od=od, k=k: z3.simplify(z3.Or(x == k, od(x)))
        return RowRef(books, k, "LimitOrderBook")

    def ensures(self, c):
        if c.callsite:
            return []          # result() is the exact functional post-state
        r = c.result
        books = c.heap()[c.self.oid]["_books"]
        ok = isinstance(r, RowRef) and r.m.oid == books.oid
        o, n = BookView(c.old, c.self), BookView(c.heap(), c.self)
        i = z3.Int("i*")
        return [Cl("key", FALSE if not ok else r.k == sh(c.key.t)),
                PW("no_book_changes", lambda x: z3.And(row_unchanged(o, n, x), hist_prefix_kept(o, n, x, i)))]


@register
class ProcessNBBO(Contract):
    """C14: last quote wins, per-contract isolation, dead stays dead"""
    relpath, qual = REL, "Exchange.process_EventNBBO"
    props = ("C14", "C08", "C02")

    def pre_state(self, I):
        return {"self": mk_full_exchange(I), "event": mk_nbbo(I)}

    def modifies(self, c):
        return [("obj", c.I.heap[c.self.oid]["_books"]), ("field", c.self, "last_update")]

    def havoc(self, c):
        I = c.I
        books = I.heap[c.self.oid]["_books"]
        ev = c.old[c.event.oid]
        k = sh(ev["contract"].t)
        I.add_key(k)
        o = BookView(c.old, c.self)
        evf = event_fields(c.old, c.event)
        alive = o.alive(k)
        for f in FL_COLS + ["time"]:
            I.colset(books, f, k, vite(alive, lift_fl(evf[f]), lift_fl(o.col(f, k))))
        p = I.heap[books.oid]
        hist = dict(p["hist"])
        for n in HIST:
            ln, at = hist[n]
            n0 = ln(k)
            hist[n] = ((lambda ln, k, alive: lambda x: z3.If(z3.And(x == k, alive), ln(k) + 1, ln(x)))(ln, k, alive),
                       (lambda at, k, n0, v, alive: lambda x, i: vite(z3.And(x == k, i == n0, alive), v, at(x, i)))(at, k, n0, lift_fl(evf[n]), alive))
        p["hist"] = hist
        od = p["dom"]
        p["dom"] = lambda x, od=od, k=k: z3.simplify(z3.Or(x == k, od(x)))
        I.wrote(books.oid, "*")
        I.fset(c.self, "last_update", ev["time"])

    def ensures(self, c):
        o, n = BookView(c.old, c.self), BookView(c.heap(), c.self)
        ev = c.old[c.event.oid]
        k = sh(ev["contract"].t)
        evf = event_fields(c.old, c.event)
        i = z3.Int("i*")
        return [
            Cl("last_wins", z3.Implies(o.alive(k), updated_row(o, n, k, evf))),
            Cl("dead_ignores_quotes", z3.Implies(z3.Not(o.alive(k)), row_unchanged(o, n, k))),
            Cl("history_prefix_kept", hist_prefix_kept(o, n, k, i)),
            PW("other_keys", lambda x: z3.Implies(x != k, z3.And(row_unchanged(o, n, x), hist_prefix_kept(o, n, x, i)))),
            PW("dead_stays_dead", lambda x: z3.Implies(z3.Not(o.alive(x)), z3.Not(n.alive(x)))),
            Cl("last_update", z3.BoolVal(c.heap()[c.self.oid]["last_update"] is None) if ev["time"] is None else
               (same_fl(c.heap()[c.self.oid]["last_update"], ev["time"]) if c.heap()[c.self.oid]["last_update"] is not None else FALSE)),
        ]

    def witness(self, c):
        I = c.I
        o = BookView(I.snapshot(), c.self)
        ev = I.heap[c.event.oid]
        k = sh(ev["contract"].t)
        return {"alive": o.alive(k), "old_bid": lift_fl(o.col("bid_price", k)).v, "old_bid_nan": lift_fl(o.col("bid_price", k)).nan,
                "old_ask": lift_fl(o.col("ask_price", k)).v, "old_ask_nan": lift_fl(o.col("ask_price", k)).nan,
                "ev_bid": lift_fl(ev["bid_price"]).v, "ev_bid_nan": lift_fl(ev["bid_price"]).nan, "ev_ask": lift_fl(ev["ask_price"]).v,
                "ev_ask_nan": lift_fl(ev["ask_price"]).nan, "key_is_static": sh(ev["contract"].t) == ev["contract"].t,
                "book_exists": o.dom(k), "history_len": o.hlen("bid_price", k)}

    def perturbed(self, c):
        o, n = BookView(c.old, c.self), BookView(c.heap(), c.self)
        ev = c.old[c.event.oid]
        k = sh(ev["contract"].t)
        return [Cl("dead_book_takes_the_quote", z3.Implies(z3.Not(o.alive(k)), same_fl(n.col("bid_price", k), ev["bid_price"])))]


@register
class ProcessDiscontinued(Contract):
    relpath, qual = REL, "Exchange.process_EventContractDiscontinued"
    props = ("C14", "C13", "C11")

    def witness(self, c):
        I = c.I
        o = BookView(I.snapshot(), c.self)
        ev = I.heap[c.event.oid]
        k = sh(ev["contract"].t)
        return {"alive": o.alive(k), "book_exists": o.dom(k), "key_is_static": sh(ev["contract"].t) == ev["contract"].t,
                "old_bid": lift_fl(o.col("bid_price", k)).v, "old_bid_nan": lift_fl(o.col("bid_price", k)).nan}

    def pre_state(self, I):
        ev = I.new_rec("EventContractDiscontinued", time=I.fl("d_time"), contract=KeyV(I.key("d_c")))
        return {"self": mk_full_exchange(I), "event": ev}

    def modifies(self, c):
        return [("obj", c.I.heap[c.self.oid]["_books"])]

    def havoc(self, c):
        I = c.I
        books = I.heap[c.self.oid]["_books"]
        ev = c.old[c.event.oid]
        k = sh(ev["contract"].t)
        I.add_key(k)
        for f in FL_COLS:
            I.colset(books, f, k, nanval())
        I.colset(books, "time", k, ev["time"])
        I.colset(books, "is_alive", k, FALSE)
        p = I.heap[books.oid]
        od = p["dom"]
        p["dom"] = lambda x, od=od, k=k: z3.simplify(z3.Or(x == k, od(x)))

    def ensures(self, c):
        o, n = BookView(c.old, c.self), BookView(c.heap(), c.self)
        ev = c.old[c.event.oid]
        k = sh(ev["contract"].t)
        i = z3.Int("i*")
        return [
            Cl("dead", z3.And(*[lift_fl(n.col(f, k)).nan for f in FL_COLS], z3.Not(n.alive(k)))),
            Cl("history_preserved", z3.And(*[n.hlen(h, k) == o.hlen(h, k) for h in HIST], hist_prefix_kept(o, n, k, i))),
            PW("other_keys", lambda x: z3.Implies(x != k, z3.And(row_unchanged(o, n, x), hist_prefix_kept(o, n, x, i)))),
            PW("dead_stays_dead", lambda x: z3.Implies(z3.Not(o.alive(x)), z3.Not(n.alive(x)))),
        ]
