/-
Finite-sum lemmas that the verifier applies at the meta level (pyvc/ghost.py, pyvc/contract.py):
the SMT solver never sees a summation operator; it is only asked the pointwise / finite-delta side conditions.
Families are real-valued with finite support; `D` is any finite set containing the supports and the touched keys.
Checked by `lean lean/SumLemmas.lean` (Lean 4 + Mathlib) in the thorough tier.
-/
import Mathlib.Tactic.Ring
import Mathlib.Tactic.Linarith
import Mathlib.Algebra.BigOperators.Group.Finset.Basic
import Mathlib.Data.Real.Basic
open Finset BigOperators
set_option linter.unusedSectionVars false

variable {κ : Type} [DecidableEq κ]

/-- SumCongr: pointwise equal terms have equal sums. -/
theorem sum_congr_on (D : Finset κ) (f g : κ → ℝ) (h : ∀ k ∈ D, f k = g k) :
    ∑ k ∈ D, f k = ∑ k ∈ D, g k := Finset.sum_congr rfl h

/-- SumZero: a family whose every term is 0 sums to 0. -/
theorem sum_zero_on (D : Finset κ) (f : κ → ℝ) (h : ∀ k ∈ D, f k = 0) :
    ∑ k ∈ D, f k = 0 := Finset.sum_eq_zero h

/-- SumDelta (general form): two families that agree outside a finite set `T ⊆ D` of touched keys differ in total by the
    sum of their differences over `T`. The engine's `delta` obligation is `∑ k ∈ T, (f k - g k) = δ` with `T` given as a
    list whose duplicates are counted once (i.e. as a Finset). -/
theorem sum_update_fin (D T : Finset κ) (f g : κ → ℝ) (hT : T ⊆ D)
    (h : ∀ k ∈ D, k ∉ T → f k = g k) :
    ∑ k ∈ D, f k - ∑ k ∈ D, g k = ∑ k ∈ T, (f k - g k) := by
  rw [← Finset.sum_sub_distrib]
  rw [← Finset.sum_subset hT]
  intro k hk hkT
  rw [h k hk hkT]; ring

/-- one touched key -/
theorem sum_update_one (D : Finset κ) (f g : κ → ℝ) (c : κ) (hc : c ∈ D)
    (h : ∀ k ∈ D, k ≠ c → f k = g k) :
    ∑ k ∈ D, f k - ∑ k ∈ D, g k = f c - g c := by
  have := sum_update_fin D {c} f g (by simpa using hc) (by
    intro k hk hkc
    exact h k hk (by simpa using hkc))
  simpa using this

/-- enlarging the index set by keys outside the support changes nothing (terms are 0 outside the domain of the map). -/
theorem sum_support_irrelevant (D E : Finset κ) (f : κ → ℝ) (hDE : D ⊆ E) (h : ∀ k ∈ E, k ∉ D → f k = 0) :
    ∑ k ∈ E, f k = ∑ k ∈ D, f k := (Finset.sum_subset hDE h).symm

/-- loop step: adding one key to the done-set adds its term (ledger of a rebalance). -/
theorem sum_insert_new (D : Finset κ) (f : κ → ℝ) (c : κ) (hc : c ∉ D) :
    ∑ k ∈ insert c D, f k = f c + ∑ k ∈ D, f k := Finset.sum_insert hc
