import time
from z3 import *
C=DeclareSort('Contract'); R=RealSort(); B=BoolSort()
AR=ArraySort(C,R); AB=ArraySort(C,B)
SUM=Function('SUM',AR,AB,R)            # ghost: sum of g over the key set D
mult=Function('mult',C,R); mr=Function('mr',C,R); cr=Function('cr',C,R)
bid=Function('bid',C,R); ask=Function('ask',C,R)
def liq(c,q): return If(q>0,bid(c),If(q<0,ask(c),(bid(c)+ask(c))/2))
def absr(x): return If(x>=0,x,-x)
k=Const('k',C); x=Const('x',C); cash=Const('cash',C)
qty=Const('qty',AR); dom=Const('dom',AB); lastd=Const('lastd',AB)
def g_of(marg,last):   # per-key equity term as an array-valued lambda
    return Lambda([k], Select(marg,k) + If(And(mr(k)!=0,Select(lastd,k)), Select(qty,k)*mult(k)*(liq(k,Select(qty,k))-Select(last,k)), 0)
                      + cr(k)*mult(k)*Select(qty,k)*liq(k,Select(qty,k)))
marg=Const('marg',AR); last=Const('last',AR); cashq=Real('cashq')
# note: cash is itself a key of qty: qty[cash]=cashq, cr=1,mult=1,mr=0, bid=ask=1
qty0=Store(qty,cash,cashq)
def G(qtyA,marg,last):
    return Lambda([k], Select(marg,k) + If(And(mr(k)!=0,Select(lastd,k)), Select(qtyA,k)*mult(k)*(liq(k,Select(qtyA,k))-Select(last,k)), 0)
                      + cr(k)*mult(k)*Select(qtyA,k)*liq(k,Select(qtyA,k)))
# one MTM iteration on x (margined, valid quote, has last): real arithmetic of the body
q=Select(qty0,x); l=liq(x,q); profit=q*mult(x)*(l-Select(last,x))
m1=Select(marg,x)+profit; tgt=l*absr(q)*mult(x)*mr(x); ex=m1-tgt
marg2=Store(marg,x,m1-ex); last2=Store(last,x,l); qty2=Store(qty0,cash,cashq+ex)
g1=G(qty0,marg,last); g2=G(qty2,marg2,last2)
# Lean lemma sum_update_two, instantiated: if g1,g2 agree on D \ {x,cash} then SUM differs by the two points
lemma=Implies(And(Select(dom,x),Select(dom,cash),x!=cash, ForAll([k],Implies(And(Select(dom,k),k!=x,k!=cash), Select(g1,k)==Select(g2,k)))),
              SUM(g2,dom)-SUM(g1,dom)==(Select(g2,x)-Select(g1,x))+(Select(g2,cash)-Select(g1,cash)))
pre=And(x!=cash, Select(dom,x),Select(dom,cash), mr(x)!=0, Select(lastd,x), mr(cash)==0, cr(cash)==1, mult(cash)==1, bid(cash)==1, ask(cash)==1,
        0<bid(x), bid(x)<=ask(x), mult(x)>0, 0<mr(x), mr(x)<=1, cr(x)==0)
s=Solver(); s.add(pre,lemma, Not(And(SUM(g2,dom)==SUM(g1,dom), Select(marg2,x)==tgt, tgt>=0)))
t=time.time(); print("MTM step preserves equity & margin at target:", s.check(), round(time.time()-t,3))
# vacuity guard: a perturbed post must be refuted
s=Solver(); s.add(pre,lemma, Not(SUM(g2,dom)==SUM(g1,dom)+1)); print("perturbed post (must be sat):", s.check())
