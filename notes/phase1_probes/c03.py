import warnings; warnings.filterwarnings("ignore")
from tradingenv.broker.broker import Broker
from tradingenv.broker.rebalancing import Rebalancing
from tradingenv.broker.fees import BrokerFees
from tradingenv.exchange import Exchange
from tradingenv.contracts import Cash, Rate, ETF, ES, ZN, Asset
from tradingenv.events import EventNBBO
from datetime import datetime, timedelta
import numpy as np
t=datetime(2020,1,1)
class Lot(Asset): multiplier=7.0
cs=[ETF('A'),ETF('B'),ES(2020,6),ZN(2020,6),Lot('L')]
rng=np.random.default_rng(0); bad=0; n=0
PX={}
def quotes(ex,tt,spread):
    for c in cs:
        PX[c]=PX.get(c,float(rng.uniform(5,500)))*float(np.exp(rng.normal(0,0.02)))
        p=PX[c]; h=p*spread/2*float(rng.uniform(0,1))
        ex.process_EventNBBO(EventNBBO(tt,c,p-h,p+h))
for trial in range(300):
    spread=[0,0.01,0.05][trial%3]; fees=BrokerFees(proportional=[0,0.002][trial%2],fixed=[0,0.5][(trial//2)%2])
    PX.clear(); ex=Exchange(); ex.process_EventNBBO(EventNBBO(t,Cash(),1,1)); ex.process_EventNBBO(EventNBBO(t,Rate("FED funds rate"),0,0))
    quotes(ex,t,spread); b=Broker(ex,deposit=1e5,fees=fees)
    tt=t
    try:
        for k in range(4):   # arbitrary prior history
            tt+=timedelta(days=1); quotes(ex,tt,spread)
            w=rng.uniform(-0.6,0.6,len(cs)); w[rng.integers(len(cs))]=0.0
            sel=[i for i in range(len(cs)) if rng.random()<0.7]
            b.rebalance(Rebalancing([cs[i] for i in sel],[w[i] for i in sel],time=tt))
        tt+=timedelta(days=1); quotes(ex,tt,spread)
        w=rng.uniform(-0.8,0.8,len(cs)); sel=[i for i in range(len(cs)) if rng.random()<0.7]
        nlv_pre=b.net_liquidation_value(); held=dict(b.holdings_quantity)
        rb=Rebalancing([cs[i] for i in sel],[w[i] for i in sel],time=tt); b.rebalance(rb); n+=1
    except Exception as e:
        print("raised",type(e).__name__,e); bad+=1; continue
    q=b.holdings_quantity
    for i in sel:
        c=cs[i]; px=ex[c].ask_price if w[i]>0 else ex[c].bid_price
        if abs(q.get(c,0)*c.multiplier*px - w[i]*nlv_pre)>1e-6*nlv_pre: bad+=1; print("target not reached",trial,c,q.get(c,0)*c.multiplier*px,w[i]*nlv_pre)
    for c in cs:
        if c not in [cs[i] for i in sel] and q.get(c,0)!=0: bad+=1; print("not closed",trial,c,q[c])
    # C05
    nlv=b.net_liquidation_value(); m=b.holdings_margins
    for c in cs:
        qq=q.get(c,0); liq=ex[c].bid_price if qq>0 else ex[c].ask_price
        exp=c.margin_requirement*c.multiplier*abs(qq)*liq
        if abs(m.get(c,0)-exp)>1e-6*max(1,exp): bad+=1; print("margin off",trial,c,m.get(c,0),exp)
    tot=q[Cash()]+sum(m.values())+sum(q.get(c,0)*(ex[c].bid_price if q.get(c,0)>0 else ex[c].ask_price)*c.multiplier for c in cs if c.cash_requirement==1)
    if abs(tot-nlv)>1e-6*nlv: bad+=1; print("decomposition off",trial,tot,nlv)
    wts=b.holdings_weights()
    for c in cs:
        qq=q.get(c,0); liq=ex[c].bid_price if qq>0 else ex[c].ask_price
        if abs(wts.get(c,0)-qq*liq*c.multiplier/nlv)>1e-9: bad+=1; print("weight off",trial,c)
    if spread==0 and fees.proportional==0 and fees.fixed==0:
        if abs(nlv-nlv_pre)>1e-6*nlv: bad+=1; print("frictionless nlv changed",trial)
        rb2=Rebalancing([cs[i] for i in sel],[w[i] for i in sel],time=tt+timedelta(seconds=1)); b.rebalance(rb2)
        big=[tr for tr in rb2.trades if abs(tr.notional)>1e-6*nlv]
        if big: bad+=1; print("second rebalance trades",trial,big)
print("rebalances",n,"bad",bad)
