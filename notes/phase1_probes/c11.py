import warnings; warnings.filterwarnings("ignore")
from tradingenv.contracts import ES, NK, ZN, ZB, ZT, ZF, ZQ, VX, FutureChain, AbstractContract
from tradingenv.transmitter import Transmitter
from datetime import datetime, timedelta
import numpy as np, pandas as pd
print("== C11 lead at exact last-trading instants")
ch=FutureChain(ES,'2019-01','2020-12')
for c in ch.contracts[:3]:
    ltd=c.last_trading_date
    for dt in (-1,0,1):
        now=ltd+timedelta(seconds=dt)
        lead=ch.lead_contract(now)
        print(c, "ltd",ltd,"now-ltd",dt,"lead",lead,"lead.ltd>now",lead.last_trading_date>now)
print("month offsets:", [FutureChain(ES,'2019-01','2020-12',month=m).lead_contract(datetime(2019,4,1)) for m in (0,1,2)], ch.lead_contract(datetime(2019,4,1),month=1))
print("== C19 quick exhaustive sanity for ES/NK/ZN/VX")
import calendar
bad=0
for cls in (ES,NK,ZN,ZB,ZT,ZF,ZQ,VX):
    prev=None
    for y in range(1970,2100):
        for m in (range(1,13) if cls is VX else (3,6,9,12)):
            try:
                f=cls(y,m)
            except Exception as e:
                bad+=1; print(cls.__name__,y,m,"raised",e); break
            e=pd.Timestamp(f.expiry); l=pd.Timestamp(f.last_trading_date)
            if not l<e: bad+=1; print("ltd>=exp",f,l,e)
            if cls in (ES,NK):
                k=3 if cls is ES else 2
                fr=[d for d in range(1,32) if d<=calendar.monthrange(y,m)[1] and datetime(y,m,d).weekday()==4][k-1]
                if (e.year,e.month,e.day)!=(y,m,fr): bad+=1; print("bad expiry",f,e)
            if prev is not None and not (prev[0]<e and prev[1]<l): bad+=1; print("non-monotone",cls.__name__,y,m,prev,e,l)
            prev=(e,l)
print("bad",bad)
print("== C15 walk_forward")
tr=Transmitter(list(pd.date_range('2020-01-01',periods=23)))
for sliding in (True,False):
    f=tr.walk_forward(train_size=5,test_size=4,sliding_window=sliding)
    print(sliding, list(f.train_start), list(f.train_end), list(f.test_start), list(f.test_end))
try:
    f=tr.walk_forward(train_size=20,test_size=3); print(list(f.train_start),list(f.test_end))
    f=tr.walk_forward(train_size=20,test_size=4); print(list(f.train_start),list(f.test_end))
    f=tr.walk_forward(train_size=22,test_size=1); print(list(f.train_start),list(f.test_end))
    f=tr.walk_forward(train_size=23,test_size=1); print("23+1:",list(f.train_start),list(f.test_end))
except Exception as e: print("raised",e)
