import time
from z3 import *
def liq(q,bid,ask): return If(q>0,bid,If(q<0,ask,(bid+ask)/2))
def absr(x): return If(x>=0,x,-x)
q,dq,bid,ask,mult,mr,cr,cash,marg,last,fx,fp=Reals('q dq bid ask mult mr cr cash marg last fx fp')
pre=And(0<bid,bid<=ask,mult>0,fx>=0,fp>=0,dq!=0, Or(And(cr==1,mr==0),And(cr==0,0<mr,mr<=1)))
def mtm(q,cash,marg,last,hasmr):
    l=liq(q,bid,ask)
    profit=q*mult*(l-last)
    m1=marg+profit
    tgt=l*absr(q)*mult*mr
    ex=m1-tgt
    return If(hasmr,cash+ex,cash),If(hasmr,m1-ex,marg),If(hasmr,l,last)
def pending(q,cash,marg,last):
    l=liq(q,bid,ask)
    return cash+marg+If(mr!=0,q*mult*(l-last),0)+cr*q*l   # as coded: no multiplier on spot
def pending_spec(q,cash,marg,last):
    l=liq(q,bid,ask)
    return cash+marg+If(mr!=0,q*mult*(l-last),0)+cr*q*l*mult
for name,pend,fix in [("code-as-is",pending,False),("code-as-is vs spec valuation",pending_spec,False),("fixed ref price",pending_spec,True)]:
    c1,m1,l1=mtm(q,cash,marg,last,mr!=0)
    acq=If(dq>0,ask,bid)
    notional=acq*dq*mult
    comm=fx+absr(notional)*fp
    q2=q+dq
    mexp=acq*absr(q2)*mult*mr
    mdiff=mexp-m1
    c2=c1-comm-notional*cr-mdiff
    m2=m1+mdiff
    if fix:
        m2=m2+dq*mult*(l1-acq); l2=l1
    else:
        l2=acq
    c3,m3,l3=mtm(q2,c2,m2,l2,mr!=0)
    before=pend(q,cash,marg,last); after=pend(q2,c3,m3,l3)
    post= after-before == -comm + mult*(q2*liq(q2,bid,ask)-q*liq(q,bid,ask)-dq*acq)
    s=Solver(); s.set('timeout',20000); s.add(pre, Not(post))
    t=time.time(); r=s.check(); print(name,r,round(time.time()-t,3))
    if r==sat:
        m=s.model(); print({str(d):m[d] for d in m.decls()})
