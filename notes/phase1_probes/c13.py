import warnings; warnings.filterwarnings("ignore")
from tradingenv.broker.broker import Broker
from tradingenv.broker.rebalancing import Rebalancing
from tradingenv.broker.fees import BrokerFees
from tradingenv.exchange import Exchange
from tradingenv.contracts import Cash, Rate, ETF, ES, FutureChain
from tradingenv.events import EventNBBO, EventContractDiscontinued
from tradingenv.transmitter import Transmitter
from datetime import datetime, timedelta
import numpy as np, itertools
t=datetime(2020,1,1); nan=float('nan')
A,B=ETF('A'),ETF('B'); es=ES(2020,6)
def mk(quotes):
    ex=Exchange()
    for e in [EventNBBO(t,Cash(),1,1),EventNBBO(t,Rate("FED funds rate"),0,0)]: ex.process_EventNBBO(e)
    for c,(b,a) in quotes.items(): ex.process_EventNBBO(EventNBBO(t,c,b,a))
    return ex
print("== C13: held contract loses a side; rebalance atomicity")
for held,side in itertools.product([+1,-1,0],['bid','ask','both','disc']):
  for targeted in (True,False):
    ex=mk({A:(10,10),B:(20,20)}); b=Broker(ex,deposit=1000)
    if held: b.rebalance(Rebalancing([A,B],[0.2*held,0.3],time=t))
    else: b.rebalance(Rebalancing([B],[0.3],time=t))
    # fault on A
    if side=='disc': ex.process_EventContractDiscontinued(EventContractDiscontinued(t,A))
    else:
        bb,aa={'bid':(nan,10),'ask':(10,nan),'both':(nan,nan)}[side]
        ex[A].bid_price=bb; ex[A].ask_price=aa
    before=(dict(b.holdings_quantity),len(b.track_record))
    needed = (held>0 and side in('bid','both','disc')) or (held<0 and side in('ask','both','disc'))
    try:
        v=b.net_liquidation_value(); r1="nlv=%s"%v
    except Exception as e: r1="nlv raises "+type(e).__name__
    try:
        b.rebalance(Rebalancing([A,B] if targeted else [B],[0.1,0.1] if targeted else [0.1],time=t+timedelta(days=1))); r2="rebalance ok"
    except Exception as e: r2="rebalance raises "+type(e).__name__
    after=(dict(b.holdings_quantity),len(b.track_record))
    unchanged = all(before[0].get(k)==after[0].get(k) for k in before[0] if not isinstance(k,Cash)) and before[1]==after[1]
    flag=""
    if needed and not r1.startswith("nlv raises"): flag+=" !!VALUED"
    if r2.endswith("ok") and (needed or (targeted)) : flag+=" !!TRADED-WITHOUT-QUOTE?"
    if not r2.endswith("ok") and not unchanged: flag+=" !!PARTIAL"
    print(f"held={held:+d} side={side:4s} targeted={targeted!s:5s} | {r1:22s} | {r2:28s} unchanged={unchanged}{flag}")
