import warnings; warnings.filterwarnings("ignore")
from tradingenv.env import TradingEnv
from tradingenv.transmitter import Transmitter
from tradingenv.contracts import ETF, ES, VX, FutureChain, Cash
from tradingenv.events import EventNBBO, IEvent
from tradingenv.features import Feature
from tradingenv.spaces import BoxPortfolio
from tradingenv.broker.broker import EndOfEpisodeError
from datetime import datetime, timedelta
import numpy as np, traceback

class Rec(Feature):
    def __init__(self): super().__init__(); self.log=[]
    def process_EventNBBO(self, event): self.log.append(('NBBO',event.time,event.bid_price))
    def process_EventReset(self, event): self.log.append(('Reset',event.time))
    def process_EventStep(self, event): self.log.append(('Step',event.time))
    def process_EventDone(self, event): self.log.append(('Done',event.time))
    def process_EventNewDate(self, event): self.log.append(('NewDate',event.time))
spy=ETF('SPY')
d=datetime(2020,1,1)
# grid every 12h, latency 30s; events around
grid=[d+timedelta(hours=12*i) for i in range(6)]
tr=Transmitter(grid, folds={'a':[grid[0],grid[-1]],'b':[grid[3],grid[-1]]})
evs=[]
for i,g in enumerate(grid):
    evs.append(EventNBBO(g,spy,100+i,100+i))
    evs.append(EventNBBO(g+timedelta(seconds=10),spy,100+i+.1,100+i+.1))   # latent for next step
    evs.append(EventNBBO(g+timedelta(seconds=60),spy,100+i+.2,100+i+.2))   # nonlatent for next
tr.add_events(evs)
rec=Rec()
env=TradingEnv(action_space=BoxPortfolio([spy]),state=[rec],transmitter=tr,latency=30)
env.reset(fold='b')
print("after reset into fold b, log:")
for l in rec.log: print("  ",l)
times=[l[1] for l in rec.log]
print("monotone:", all(a<=b for a,b in zip(times,times[1:])))
print("exchange book after reset:", env.exchange[spy], "now", env.now())
rec.log.clear()
obs,r,done,info=env.step(np.array([0.5]))
for l in rec.log: print("  ",l)
print("now after step", env.now())
