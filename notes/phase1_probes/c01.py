from tradingenv.broker.broker import Broker
from tradingenv.broker.trade import Trade
from tradingenv.broker.fees import BrokerFees
from tradingenv.exchange import Exchange
from tradingenv.contracts import Cash, Rate, ETF, ES, AbstractContract, Asset
from tradingenv.events import EventNBBO
from datetime import datetime
t=datetime(2020,1,1)
def mk(evs):
    ex=Exchange()
    for e in [EventNBBO(t,Cash(),1,1),EventNBBO(t,Rate("FED funds rate"),0,0)]+evs: ex.process_EventNBBO(e)
    return ex
# 1. add to a margined long with spread
es=ES(2019,6)
ex=mk([EventNBBO(t,es,99,100)])
b=Broker(ex,deposit=1e6)
b.transact(Trade(t,es,1,99,100)); n1=b.net_liquidation_value()
b.transact(Trade(t,es,1,99,100)); n2=b.net_liquidation_value()
print("future add: nlv after 1st",n1,"after 2nd",n2,"expected drop per trade",50*1, "actual 2nd drop", n1-n2)
# same with spot
spy=ETF("SPY")
ex=mk([EventNBBO(t,spy,99,100)])
b=Broker(ex,deposit=1e6)
b.transact(Trade(t,spy,50,99,100)); n1=b.net_liquidation_value()
b.transact(Trade(t,spy,50,99,100)); n2=b.net_liquidation_value()
print("spot add: ",n1,n2,n1-n2)
# 2. spot-like with multiplier != 1
class Lot(Asset):
    multiplier=10.0
x=Lot("X")
ex=mk([EventNBBO(t,x,100,100)])
b=Broker(ex,deposit=1e6)
b.transact(Trade(t,x,1,100,100))
print("spot mult10: nlv",b.net_liquidation_value(),"cash",b.holdings_quantity[Cash()], "weights", b.holdings_weights())
# 3. epsilon snap
ex=mk([EventNBBO(t,spy,1e9,1e9)])
b=Broker(ex,deposit=1e6)
b.transact(Trade(t,spy,5e-8,1e9,1e9))
print("dust: nlv",b.net_liquidation_value(raise_if_broke=False), b.holdings_quantity)
