import warnings; warnings.filterwarnings("ignore")
import sys
from tradingenv.env import TradingEnv
from tradingenv.transmitter import Transmitter
from tradingenv.contracts import ETF, ES, Cash, Rate, FutureChain
from tradingenv.events import EventNBBO
from tradingenv.spaces import BoxPortfolio
from tradingenv.broker.fees import BrokerFees
from tradingenv.rewards import RewardSimpleReturn, RewardLogReturn, RewardPnL
from datetime import datetime, timedelta
import numpy as np, pandas as pd
rng=np.random.default_rng(int(sys.argv[1]) if len(sys.argv)>1 else 0)
def episode(seed, spread, fees, rate_path, latency, delay, use_future):
    rng=np.random.default_rng(seed)
    d=datetime(2020,1,6,9); n=12
    grid=[d+timedelta(days=i) for i in range(n)]
    spy=ETF('SPY'); es=ES(2020,6)
    cs=[spy]+([es] if use_future else [])
    rate=Rate('FED funds rate')
    tr=Transmitter(grid); evs=[]
    px={c:100*np.exp(np.cumsum(rng.normal(0,.02,n))) for c in cs}
    for i,g in enumerate(grid):
        for c in cs:
            p=px[c][i]; evs.append(EventNBBO(g,c,p*(1-spread/2),p*(1+spread/2)))
            # extra intrabar quote shortly after the bar (inside/outside latency)
            p2=p*(1+rng.normal(0,.003)); evs.append(EventNBBO(g+timedelta(seconds=int(rng.integers(1,120))),c,p2*(1-spread/2),p2*(1+spread/2)))
        if rate_path: evs.append(EventNBBO(g,rate,rate_path[i%len(rate_path)],rate_path[i%len(rate_path)]))
    tr.add_events(evs)
    env=TradingEnv(action_space=BoxPortfolio(cs,-1.5,1.5),transmitter=tr,broker_fees=BrokerFees(markup=(0.0 if rate_path is None else 0.002),proportional=fees,fixed=fees*10),latency=latency,steps_delay=delay,reward=RewardSimpleReturn())
    env.reset(); rewards=[]; done=False; nlv_after=[]
    while not done:
        a=rng.uniform(-1,1,len(cs)); 
        _,r,done,info=env.step(a); rewards.append(r); nlv_after.append(env.broker.net_liquidation_value())
    return env,rewards,nlv_after
bad=0; n=0
for seed in range(30):
    for spread,fees,rp,lat,dl,fut in [(0,0,None,0,0,False),(0.002,0,None,0,0,True),(0.002,0.001,[0.03,0.01],0,1,True),(0.004,0.0005,[0.02],60,0,True),(0.0,0.0,[0.05],0,0,False)]:
        env,rewards,nlv_after=episode(seed,spread,fees,rp,lat,dl,fut); tr=env.broker.track_record; n+=1
        times=tr._time
        if not all(a<b for a,b in zip(times,times[1:])): bad+=1; print("times not increasing",seed)
        if len(tr)!=len(rewards): bad+=1; print("entries != decisions",len(tr),len(rewards))
        # ledger: post - pre = -sum comm + sum mult*(q'liq' - q liq - dq acq) using recorded contexts/trades
        for k in range(len(tr)):
            rb=tr[k]
            d_nlv=rb.context_post.nlv-rb.context_pre.nlv
            comm=sum(t.cost_of_commissions for t in rb.trades)
            exp=-comm
            for t in rb.trades:
                c=t.contract; q0=rb.context_pre.nr_contracts.get(c,0.); q1=rb.context_post.nr_contracts.get(c,0.)
                liq=lambda q:(t.bid_price if q>0 else t.ask_price if q<0 else (t.bid_price+t.ask_price)/2)
                exp+=c.multiplier*(q1*liq(q1)-q0*liq(q0)-t.quantity*t.acq_price)
            if abs(d_nlv-exp)>1e-7*max(1,abs(rb.context_pre.nlv)):
                bad+=1; print(f"ledger mismatch seed={seed} cfg=({spread},{fees},{lat},{dl},{fut}) k={k} d_nlv={d_nlv:.6f} expected={exp:.6f}"); break
        # rewards: r_k = nlv_after_k / pre_k - 1
        for k,r in enumerate(rewards):
            if k<len(tr) and abs(r-(nlv_after[k]/tr[k].context_pre.nlv-1))>1e-12: bad+=1; print("reward mismatch",seed,k); break
        if rp is None and lat==0:
            comp=np.prod([1+r for r in rewards]); tot=nlv_after[-1]/tr[0].context_pre.nlv
            if abs(comp-tot)>1e-9: bad+=1; print("telescoping mismatch",seed,comp,tot)
print("episodes",n,"bad",bad)
