import warnings; warnings.filterwarnings("ignore")
from tradingenv.env import TradingEnv
from tradingenv.transmitter import Transmitter
from tradingenv.contracts import ETF, ES, VX, ZN, NK, FutureChain, Cash
from tradingenv.events import EventNBBO
from tradingenv.spaces import BoxPortfolio
from tradingenv.broker.broker import EndOfEpisodeError, Broker
from tradingenv.broker.rebalancing import Rebalancing
from tradingenv.exchange import Exchange
from datetime import datetime, timedelta
import numpy as np, pandas as pd, traceback
spy=ETF('SPY')
d=datetime(2020,1,1)
print("== C09: insolvency via prices")
grid=[d+timedelta(days=i) for i in range(5)]
prices=pd.DataFrame({spy:[100,100,300,300,300]},index=grid)
env=TradingEnv(action_space=BoxPortfolio([spy],low=-2,high=2),prices=prices)
env.reset()
try:
    for i in range(4):
        out=env.step(np.array([-1.0])); print(i,out[1:3], env.broker.net_liquidation_value(False))
except Exception as e: print("step raised", type(e).__name__, e)
print("== single-asset clock lag")
prices=pd.DataFrame({spy:[100,101,102,103,104]},index=grid)
env=TradingEnv(action_space=BoxPortfolio([spy]),prices=prices)
env.reset(); print("now after reset",env.now())
for i in range(3):
    try:
        env.step(np.array([0.5])); print("now",env.now(), "tr times", env.broker.track_record._time[-1])
    except Exception as e: print("raised",type(e).__name__,e); break
print("== C12 whole lots second rebalance")
ex=Exchange(); t=d
for e in [EventNBBO(t,Cash(),1,1),EventNBBO(t,spy,10,10)]: ex.process_EventNBBO(e)
from tradingenv.contracts import Rate
ex.process_EventNBBO(EventNBBO(t,Rate("FED funds rate"),0,0))
b=Broker(ex,deposit=105)
b.rebalance(Rebalancing([spy],[0.5],fractional=False,time=t)); print(b.holdings_quantity)
try:
    b.rebalance(Rebalancing([spy],[0.5],fractional=False,time=t+timedelta(days=1))); print(b.holdings_quantity)
except Exception as e: print("2nd raised",type(e).__name__,e)
print("== C19 VX chain")
for cls in (ES,NK,ZN,VX):
    try:
        ch=FutureChain(cls,'2019-01','2020-12'); print(cls.__name__,len(ch.contracts), ch.contracts[:3])
    except Exception as e: print(cls.__name__,"raised",type(e).__name__,e)
print(pd.__version__)
