import Mathlib.Tactic.Ring
import Mathlib.Algebra.BigOperators.Group.Finset.Basic
import Mathlib.Data.Real.Basic
open Finset BigOperators

variable {κ : Type} [DecidableEq κ]

/-- frame lemma: two valuations that agree off `c` differ in total by the change at `c`. -/
theorem sum_update_one (D : Finset κ) (f g : κ → ℝ) (c : κ) (hc : c ∈ D)
    (h : ∀ k ∈ D, k ≠ c → f k = g k) :
    ∑ k ∈ D, f k - ∑ k ∈ D, g k = f c - g c := by
  rw [← Finset.add_sum_erase D f hc, ← Finset.add_sum_erase D g hc]
  have : ∑ k ∈ D.erase c, f k = ∑ k ∈ D.erase c, g k := by
    apply Finset.sum_congr rfl
    intro k hk
    exact h k (Finset.mem_of_mem_erase hk) (Finset.ne_of_mem_erase hk)
  rw [this]; ring

theorem sum_insert_new (D : Finset κ) (f : κ → ℝ) (c : κ) (hc : c ∉ D) :
    ∑ k ∈ insert c D, f k = f c + ∑ k ∈ D, f k := Finset.sum_insert hc

theorem sum_congr_on (D : Finset κ) (f g : κ → ℝ) (h : ∀ k ∈ D, f k = g k) :
    ∑ k ∈ D, f k = ∑ k ∈ D, g k := Finset.sum_congr rfl h
