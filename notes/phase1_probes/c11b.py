import warnings; warnings.filterwarnings("ignore")
from tradingenv.env import TradingEnv
from tradingenv.transmitter import Transmitter
from tradingenv.contracts import ETF, ES, NK, ZN, VX, Cash, FutureChain
from tradingenv.events import EventNBBO, EventContractDiscontinued
from tradingenv.exchange import Exchange
from tradingenv.spaces import BoxPortfolio
from datetime import datetime, timedelta
import numpy as np, pandas as pd
bad=0
for cls,start,end in [(ES,'2019-01','2020-06'),(NK,'2019-01','2020-06'),(ZN,'2019-01','2020-06'),(VX,'2019-01','2019-12')]:
  for sign in (+1,-1):
    for margin in (0.0,0.05):
        chain=FutureChain(cls,start,end)
        grid=list(pd.date_range('2019-02-01','2019-10-15',freq=('D' if cls is VX else '3D')).to_pydatetime())
        tr=Transmitter(grid); rng=np.random.default_rng(1)
        for c in chain.contracts:
            p=100.0
            for g in grid:
                p*=np.exp(rng.normal(0,0.01))
                if g<c.expiry: tr.add_events([EventNBBO(g,c,p*0.999,p*1.001)])
        env=TradingEnv(action_space=BoxPortfolio([chain],-2,2,margin=margin),transmitter=tr); env.reset()
        done=False; k=0
        while not done:
            w=sign*(0.5+0.1*(k%3)); k+=1
            try: _,_,done,_=env.step(np.array([w]))
            except Exception as e: bad+=1; print(cls.__name__,sign,margin,"raised",type(e).__name__,str(e)[:80], env.now()); break
            now=env.broker.track_record._time[-1]
            lead=chain.lead_contract(now)
            q={c:v for c,v in env.broker.holdings_quantity.items() if v!=0 and not isinstance(c,Cash)}
            others=[c for c in q if c!=lead]
            if others: bad+=1; print(cls.__name__,"holds non-lead",others,"at",now,"lead",lead); break
            for c,v in q.items():
                if env.now()>=c.expiry: bad+=1; print("held at/after expiry",c,env.now())
            if not lead.last_trading_date>now: bad+=1; print("lead past ltd")
print("C11 bad",bad)
# C14 interleavings
rng=np.random.default_rng(0)
A,B=ETF('A'),ETF('B'); es=ES(2019,6)
for trial in range(200):
    ex=Exchange(); last={}; dead=set(); hist={}
    for i in range(30):
        c=[A,B,es,'A'][rng.integers(4)]; key=A if c=='A' else c
        t=datetime(2020,1,1)+timedelta(minutes=i)
        if rng.random()<0.12:
            ex.process_EventContractDiscontinued(EventContractDiscontinued(t,key)); dead.add(key); last[key]=None
        else:
            b=float(rng.uniform(1,10)); a=b+float(rng.uniform(0,1))
            ex.process_EventNBBO(EventNBBO(t,c if c!='A' else A,b,a))
            if key not in dead: last[key]=(b,a); hist.setdefault(key,[]).append((b,a))
        for k2 in (A,B,es):
            bk=ex[k2]; exp=last.get(k2)
            if exp is None:
                if not (np.isnan(bk.bid_price) and np.isnan(bk.ask_price)): bad+=1; print("dead/unquoted has price",k2)
            elif (bk.bid_price,bk.ask_price)!=exp: bad+=1; print("last quote wrong",k2)
            if list(zip(bk.history['bid_price'],bk.history['ask_price']))!=hist.get(k2,[]): bad+=1; print("history wrong",k2)
        if ex['A'] is not ex[A]: bad+=1; print("string key alias")
print("total bad",bad)
