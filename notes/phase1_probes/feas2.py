import time, subprocess
from z3 import *
def liq(q,bid,ask): return If(q>0,bid,If(q<0,ask,(bid+ask)/2))
def absr(x): return If(x>=0,x,-x)
q,dq,bid,ask,mult,mr,cr,cash,marg,last,fx,fp=Reals('q dq bid ask mult mr cr cash marg last fx fp')
pre=And(0<bid,bid<=ask,mult>0,fx>=0,fp>=0,dq!=0, Or(And(cr==1,mr==0),And(cr==0,0<mr,mr<=1)))
def mtm(q,cash,marg,last,hasmr):
    l=liq(q,bid,ask)
    profit=q*mult*(l-last)
    m1=marg+profit
    tgt=l*absr(q)*mult*mr
    ex=m1-tgt
    return If(hasmr,cash+ex,cash),If(hasmr,m1-ex,marg),If(hasmr,l,last)
def pending_spec(q,cash,marg,last):
    l=liq(q,bid,ask)
    return cash+marg+If(mr!=0,q*mult*(l-last),0)+cr*q*l*mult
c1,m1,l1=mtm(q,cash,marg,last,mr!=0)
acq=If(dq>0,ask,bid)
notional=acq*dq*mult
comm=fx+absr(notional)*fp
q2=q+dq
mexp=acq*absr(q2)*mult*mr
mdiff=mexp-m1
c2=c1-comm-notional*cr-mdiff
m2=m1+mdiff
m2=If(mr!=0,m2+dq*mult*(l1-acq),m2); l2=l1
c3,m3,l3=mtm(q2,c2,m2,l2,mr!=0)
before=pending_spec(q,cash,marg,last); after=pending_spec(q2,c3,m3,l3)
post= And(after-before == -comm + mult*(q2*liq(q2,bid,ask)-q*liq(q,bid,ask)-dq*acq),
          Implies(mr!=0, m3==mr*mult*absr(q2)*liq(q2,bid,ask)), m3>=0)
s=Solver(); s.add(pre, marg>=0, Implies(mr==0,marg==0), Not(post))
t=time.time(); r=s.check(); print("z3",r,round(time.time()-t,3))
if r==sat: print(s.model())
open('q.smt2','w').write("(set-logic QF_NRA)\n"+s.to_smt2())
t=time.time(); print("cvc5",subprocess.run(['cvc5','--tlimit=60000','q.smt2'],capture_output=True,text=True).stdout.strip(),round(time.time()-t,3))
t=time.time(); print("z3-4.8",subprocess.run(['/usr/bin/z3','-T:60','q.smt2'],capture_output=True,text=True).stdout.strip(),round(time.time()-t,3))
