import warnings; warnings.filterwarnings("ignore")
from tradingenv.env import TradingEnv
from tradingenv.transmitter import Transmitter
from tradingenv.contracts import ETF, ES, Cash, FutureChain
from tradingenv.events import EventNBBO
from tradingenv.spaces import BoxPortfolio, DiscretePortfolio
from tradingenv.broker.broker import EndOfEpisodeError
from datetime import datetime, timedelta
import numpy as np, pandas as pd, collections
spy,ief=ETF('SPY'),ETF('IEF'); d=datetime(2020,1,1)
grid=[d+timedelta(days=i) for i in range(9)]
prices=pd.DataFrame({spy:np.linspace(100,108,9),ief:np.linspace(50,46,9)},index=grid)
bad=0
print("== C08 FIFO with distinct actions")
for delay in range(0,4):
  for kind in ('box','disc'):
    if kind=='box':
        sp=BoxPortfolio([spy,ief],-1,1); acts=[np.array([0.1*k,-0.05*k]) for k in range(1,9)]
        null=np.zeros(2)
    else:
        allocs=[[0.,0.]]+[[0.1*k,-0.05*k] for k in range(1,9)]
        sp=DiscretePortfolio([spy,ief],allocs); acts=list(range(1,9)); null=0
    env=TradingEnv(action_space=sp,prices=prices.copy(),steps_delay=delay); env.reset()
    executed=[]
    for k,a in enumerate(acts):
        _,_,done,info=env.step(a)
        rb=info['_rebalancing']; executed.append(dict(rb.allocation))
        if done: break
    for k,ex in enumerate(executed):
        due = null if k<delay else acts[k-delay]
        vec = (allocs[due] if kind=='disc' else list(due))
        exp = {c:v for c,v in zip([spy,ief],vec) if v!=0}
        if {k2:round(float(v),12) for k2,v in ex.items()}!={k2:round(float(v),12) for k2,v in exp.items()}: bad+=1; print("FIFO mismatch",kind,delay,k,ex,exp)
print("== C15 exact decisions and start coverage")
for n in range(1,10):
    try:
        env=TradingEnv(action_space=BoxPortfolio([spy,ief]),prices=prices.copy(),episode_length=n)
        starts=collections.Counter()
        for rep in range(300):
            env.reset(); starts[env.now()]+=1; k=0; done=False; ts=[env.now()]
            while not done: _,_,done,_=env.step(np.array([0.2,0.2])); k+=1; ts.append(env.now())
            if k!=n: bad+=1; print("decisions",k,"!=",n); break
            if not all(t in grid for t in ts) or ts!=grid[grid.index(ts[0]):grid.index(ts[0])+n+1]: bad+=1; print("not consecutive",n); break
        valid=len(grid)-n
        print("n",n,"valid starts",valid,"seen",len(starts), "OK" if len(starts)==valid else "MISSING")
    except Exception as e: print("n",n,"refused:",type(e).__name__, "(expected)" if n>=len(grid) else "UNEXPECTED")
print("== C17 malformed actions at any step with delay")
for delay in (0,1,2):
  for badact in (np.array([0.5]),np.array([0.5,2.0]),np.array([np.nan,0.1]),np.array([[0.1,0.1]]),'x'):
    for at in (0,2):
        env=TradingEnv(action_space=BoxPortfolio([spy,ief],-1,1),prices=prices.copy(),steps_delay=delay); env.reset()
        raised_at=None
        for k in range(7):
            a=badact if k==at else np.array([0.3,0.3])
            before=(len(env.broker.track_record),dict(env.broker.holdings_quantity))
            try: env.step(a)
            except EndOfEpisodeError: break
            except Exception as e:
                raised_at=k; after=(len(env.broker.track_record),dict(env.broker.holdings_quantity))
                if before!=after: bad+=1; print("state changed on rejection",delay,badact,at)
                break
        if raised_at is None: bad+=1; print("never rejected",delay,repr(badact),at)
        elif raised_at>at+delay: bad+=1; print("rejected late",delay,repr(badact),at,raised_at)
print("bad",bad)
