import warnings; warnings.filterwarnings("ignore")
import tradingenv.metrics
import numpy as np, pandas as pd
rng=np.random.default_rng(0)
def oracle(x, dates):
    # collapse intraday to last per day
    df={}
    for d,v in zip(dates,x): df[d.date()]=v
    lv=np.array(list(df.values()))
    r=lv[1:]/lv[:-1]-1
    years=(dates[-1]-dates[0]).days/365
    out={}
    out['cagr']=(lv[-1]/lv[0])**(1/years)-1
    out['vol']=np.sqrt(252)*np.std(r,ddof=1)
    cm=np.maximum.accumulate(lv); dd=lv/cm-1
    out['mdd']=dd.min(); out['martin']=np.sqrt(np.mean(dd**2))
    out['var']=np.quantile(r,0.025); out['es']=r[r<=out['var']].mean()
    neg=r[r<0]; pos=r[r>0]
    out['dvol']=np.sqrt(252)*np.std(neg,ddof=1) if len(neg)>1 else np.nan
    out['uvol']=np.sqrt(252)*np.std(pos,ddof=1) if len(pos)>1 else np.nan
    out['sharpe']=out['cagr']/out['vol']; out['sortino']=out['cagr']/out['dvol']; out['calmar']=out['cagr']/-out['mdd']; out['martin_ratio']=out['cagr']/out['martin']
    return out,dd
bad=0;n=0
for trial in range(200):
    L=int(rng.integers(3,200)); intraday=trial%3==0
    if intraday: dates=pd.DatetimeIndex(sorted(pd.Timestamp('2020-01-01')+pd.to_timedelta(np.sort(rng.choice(24*60*L,size=L*2,replace=False)),unit='m')))
    else: dates=pd.bdate_range('2020-01-01',periods=L)
    x=100*np.exp(np.cumsum(rng.normal(0,.02,len(dates))))
    s=pd.Series(x,index=dates)
    if (dates[-1]-dates[0]).days<1 or len(set(d.date() for d in dates))<3: continue
    o,dd=oracle(x,list(dates)); n+=1
    got=dict(cagr=s.cagr(),vol=s.volatility(),mdd=s.max_drawdown(),martin=s.martin_risk(),var=s.value_at_risk(),es=s.expected_shortfall(),dvol=s.downside_volatility(),uvol=s.upside_volatility(),
             sharpe=s.sharpe_ratio(),sortino=s.sortino_ratio(),calmar=s.calmar_ratio(),martin_ratio=s.martin_ratio())
    for k in o:
        a,b=o[k],got[k]
        if not (np.isclose(a,b,rtol=1e-9,atol=1e-12) or (np.isnan(a) and np.isnan(b)) or (np.isinf(a) and np.isinf(b))): bad+=1; print("metric",k,trial,a,b,"intraday",intraday); break
    d=s.drawdown()
    if not ((d> -1).all() and (d<=0).all()): bad+=1; print("dd range")
    for kf in (1e-6,3.7,1e6):
        s2=s*kf
        g2=dict(cagr=s2.cagr(),vol=s2.volatility(),mdd=s2.max_drawdown(),sharpe=s2.sharpe_ratio(),var=s2.value_at_risk())
        for k in g2:
            if not np.isclose(g2[k],got[k],rtol=1e-9,atol=1e-12): bad+=1; print("scale",k,kf,trial); break
print("valid series",n,"bad",bad)
# corruptions
s=pd.Series(100*np.exp(np.cumsum(rng.normal(0,.02,30))),index=pd.bdate_range('2020-01-01',periods=30))
cor={}
t=s.copy(); t.iloc[5]=np.nan; cor['nan']=t
t=s.copy(); t.iloc[5]=0; cor['zero']=t
t=s.copy(); t.iloc[5]=-1; cor['neg']=t
t=s.copy(); t.index=list(s.index[:5])+[s.index[4]]+list(s.index[6:]); cor['dup']=t
cor['unsorted']=s.iloc[::-1]
t=s.copy(); t.index=range(len(s)); cor['intindex']=t
for name,t in cor.items():
    for m in ['simple_returns','cagr','volatility','drawdown','max_drawdown','value_at_risk','expected_shortfall','downside_volatility','upside_volatility','sharpe_ratio','sortino_ratio','calmar_ratio','martin_ratio','martin_risk']:
        try: getattr(t,m)(); print("NOT REJECTED",name,m)
        except Exception as e: pass
    try: t.tracking_error(s); print("NOT REJECTED",name,'tracking_error(self bad)')
    except Exception: pass
    try: s.tracking_error(t); print("NOT REJECTED",name,'tracking_error(other bad)')
    except Exception: pass
print("corruptions done")
