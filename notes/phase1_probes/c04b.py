import warnings; warnings.filterwarnings("ignore")
from tradingenv.env import TradingEnv
from tradingenv.transmitter import Transmitter
from tradingenv.contracts import ETF
from tradingenv.events import EventNBBO, IEvent
from tradingenv.features import Feature
from tradingenv.spaces import BoxPortfolio
from datetime import datetime, timedelta
import numpy as np, itertools
class Tick(IEvent):
    def __init__(self,time,uid): self.time=time; self.uid=uid
class Rec(Feature):
    def __init__(self): super().__init__(); self.log=[]
    def process_EventNBBO(self, event): self.log.append(('NBBO',event.time,None))
    def process_Tick(self, event): self.log.append(('Tick',event.time,event.uid))
    def process_EventReset(self, event): self.log.append(('Reset',event.time,None))
    def process_EventStep(self, event): self.log.append(('Step',event.time,None))
    def process_EventDone(self, event): self.log.append(('Done',event.time,None))
    def process_EventNewDate(self, event): self.log.append(('NewDate',event.time,None))
spy=ETF('SPY'); d=datetime(2020,1,1)
bad=0; runs=0
def check(cond,msg):
    global bad
    if not cond: bad+=1; print("FAIL",msg)
for latency,gaph,markov,warm,fold in itertools.product([0,30],[6,24],[False,True],[None,timedelta(hours=13)],[None,(2,4)]):
    if markov and warm: continue
    grid=[d+timedelta(hours=gaph*i) for i in range(6)]
    folds=None if fold is None else {'f':[grid[fold[0]],grid[fold[1]]]}
    tr=Transmitter(list(reversed(grid))+[grid[2]],folds,markov,warm)   # unsorted + duplicate grid input
    evs=[];uid=0
    offs=[-3600,-1,0,1,latency,latency+1,3600] if latency else [-3600,-1,0,1,3600]
    for g in grid:
        evs.append(EventNBBO(g,spy,100,100))
        for o in offs: evs.append(Tick(g+timedelta(seconds=o),uid)); uid+=1
    evs.append(Tick(grid[-1]+timedelta(hours=100),uid)); uid+=1     # after end of grid
    evs.append(Tick(grid[0]-timedelta(hours=100),uid)); uid+=1      # long before
    rng=np.random.default_rng(0); rng.shuffle(evs)
    tr.add_events(evs)
    rec=Rec(); env=TradingEnv(action_space=BoxPortfolio([spy]),state=[rec],transmitter=tr,latency=latency)
    for ep in range(2):
        env.reset(fold='f' if fold else 'training-set'); steps=list(env._transmitter._steps); first,last=steps[0],steps[-1]
        done=False
        while not done: _,_,done,_=env.step(np.array([0.3]))
        log=rec.log; runs+=1
        times=[l[1] for l in log]
        check(all(a<=b for a,b in zip(times,times[1:])), f"order lat={latency} gap={gaph} markov={markov} warm={warm} fold={fold} ep={ep}")
        got=[l[2] for l in log if l[0]=='Tick']
        check(len(got)==len(set(got)),"duplicate delivery")
        ticks={e.uid:e.time for e in evs if isinstance(e,Tick)}
        def slot(t):
            c=[g for g in grid if g>=t]; return c[0] if c else None
        exp=set()
        for u,t in ticks.items():
            s=slot(t)
            if s is None or s>last: continue
            if s>=first: exp.add(u)
            else:
                if markov: continue
                if warm is not None and s< first-warm: continue
                exp.add(u)
        check(set(got)==exp, f"completeness lat={latency} gap={gaph} markov={markov} warm={warm} fold={fold} ep={ep} missing={sorted(exp-set(got))[:5]} extra={sorted(set(got)-exp)[:5]}")
print("runs",runs,"bad",bad)
