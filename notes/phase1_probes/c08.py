import warnings; warnings.filterwarnings("ignore")
from tradingenv.env import TradingEnv
from tradingenv.transmitter import Transmitter
from tradingenv.contracts import ETF, Cash, Rate
from tradingenv.events import EventNBBO
from tradingenv.spaces import BoxPortfolio, DiscretePortfolio
from tradingenv.broker.broker import Broker, SECONDS_IN_YEAR
from tradingenv.broker.fees import BrokerFees
from tradingenv.exchange import Exchange
from datetime import datetime, timedelta
import numpy as np, pandas as pd
spy=ETF('SPY'); d=datetime(2020,1,1)
grid=[d+timedelta(days=i) for i in range(8)]
prices=pd.DataFrame({spy:[100.,101,102,103,104,105,106,107]},index=grid)
print("== discrete + delay")
sp=DiscretePortfolio([spy],[[0.],[0.5],[1.]])
print("null action", repr(sp.null_action()), sp.null_action() in sp)
env=TradingEnv(action_space=sp,prices=prices.copy(),steps_delay=1)
env.reset()
try: print(env.step(1)[1:3])
except Exception as e: print("raised",type(e).__name__,str(e)[:100])
print("== episode_length ctor vs reset")
for n in (1,2,3):
    env=TradingEnv(action_space=BoxPortfolio([spy]),prices=prices.copy(),episode_length=n); env.reset()
    k=0; done=False
    while not done: _,_,done,_=env.step(np.array([0.5])); k+=1
    env2=TradingEnv(action_space=BoxPortfolio([spy]),prices=prices.copy()); 
    try:
        env2.reset(episode_length=n); k2=0; done=False
        while not done: _,_,done,_=env2.step(np.array([0.5])); k2+=1
    except Exception as e: k2="raised %s %s"%(type(e).__name__,e)
    print("n",n,"ctor decisions",k,"reset-arg decisions",k2)
print("== interest query on fresh broker")
def mkb():
    ex=Exchange(); b=Broker(ex,deposit=100.,fees=BrokerFees(0.0))
    ex.process_EventNBBO(EventNBBO(d,b.fees.interest_rate,0.05,0.05)); return b
b1=mkb(); b1.accrued_interest(d); b1.accrued_interest(d+timedelta(days=365),True)
b2=mkb(); b2.accrued_interest(d+timedelta(days=365),True)
print("with query",b1.holdings_quantity[Cash()],"without",b2.holdings_quantity[Cash()])
