import time
from z3 import *
C=DeclareSort('Contract'); R=RealSort(); B=BoolSort()
mult=Function('mult',C,R); mr=Function('mr',C,R); cr=Function('cr',C,R); bid=Function('bid',C,R); ask=Function('ask',C,R)
def liq(c,q): return If(q>0,bid(c),If(q<0,ask(c),(bid(c)+ask(c))/2))
def absr(x): return If(x>=0,x,-x)
x=Const('x',C); cash=Const('cash',C); k=Const('k_fresh',C)
qty=Array('qty',C,R); marg=Array('marg',C,R); last=Array('last',C,R); lastd=Array('lastd',C,B)
def term(qtyA,margA,lastA,key):     # per-key equity term g(key) -- plain first-order real term
    qq=Select(qtyA,key)
    return Select(margA,key)+If(And(mr(key)!=0,Select(lastd,key)), qq*mult(key)*(liq(key,qq)-Select(lastA,key)),0)+cr(key)*mult(key)*qq*liq(key,qq)
# one MTM iteration on x (as executed from the real body)
q=Select(qty,x); l=liq(x,q); profit=q*mult(x)*(l-Select(last,x)); m1=Select(marg,x)+profit; tgt=l*absr(q)*mult(x)*mr(x); ex=m1-tgt
marg2=Store(marg,x,m1-ex); last2=Store(last,x,l); qty2=Store(qty,cash,Select(qty,cash)+ex)
pre=And(x!=cash, mr(x)!=0, Select(lastd,x), mr(cash)==0, cr(cash)==1, mult(cash)==1, bid(cash)==1, ask(cash)==1, Select(marg,cash)==0,
        0<bid(x), bid(x)<=ask(x), mult(x)>0, 0<mr(x), mr(x)<=1, cr(x)==0)
# Q1 frame (pointwise, fresh key): untouched keys keep their term
s=Solver(); s.add(pre,k!=x,k!=cash, term(qty2,marg2,last2,k)!=term(qty,marg,last,k)); t=time.time(); print("Q1 frame:",s.check(),round(time.time()-t,3))
# Q2 finite delta over touched keys {x, cash} == 0, margin at target, >= 0
delta=(term(qty2,marg2,last2,x)-term(qty,marg,last,x))+(term(qty2,marg2,last2,cash)-term(qty,marg,last,cash))
s=Solver(); s.add(pre,Not(And(delta==0,Select(marg2,x)==tgt,tgt>=0))); t=time.time(); print("Q2 delta=0 & margin at target:",s.check(),round(time.time()-t,3))
s=Solver(); s.add(pre,Not(delta==1)); print("perturbed (must be sat):",s.check())
