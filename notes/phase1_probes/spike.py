"""Throw-away spike: AST symbolic execution of the REAL broker code -> z3.
Not framework code. Purpose: validate the architecture of DESIGN.md section 4."""
import ast, sys, time, itertools
from z3 import *

REPO = sys.argv[1] if len(sys.argv) > 1 else '/repo'
C = DeclareSort('Contract')
mult = Function('mult', C, RealSort()); mr = Function('mr', C, RealSort()); cr = Function('cr', C, RealSort())
is_cash = Function('is_cash', C, BoolSort())

class Fl:                     # float = (nan flag, real)
    def __init__(s, v, nan=None): s.v = v if is_expr(v) else RealVal(v); s.nan = BoolVal(False) if nan is None else nan
def lift(x):
    if isinstance(x, Fl): return x
    if isinstance(x, (int, float)): return Fl(RealVal(x))
    if is_expr(x) and x.sort() == RealSort(): return Fl(x)
    if is_expr(x) and x.sort() == IntSort(): return Fl(ToReal(x))
    raise TypeError(x)
class Rec(dict):              # object: field -> value
    def __init__(s, cls, **kw): super().__init__(**kw); s.cls = cls
class DD:                     # defaultdict(float)/dict keyed by Contract
    def __init__(s, vals, nans, dom, default=True): s.vals, s.nans, s.dom, s.default = vals, nans, dom, default
    def copy(s): return DD(s.vals, s.nans, s.dom, s.default)
class Raise(Exception):
    def __init__(s, typ): s.typ = typ
class Ret(Exception):
    def __init__(s, val): s.val = val
class Cont(Exception): pass

class Fork(Exception): pass

class Path:
    """One execution path: decisions list drives branch choices (re-execution forking)."""
    def __init__(s, decisions): s.dec = list(decisions); s.i = 0; s.pc = []; s.new = False
    def branch(s, cond):
        cond = simplify(cond)
        if is_true(cond): return True
        if is_false(cond): return False
        if s.i < len(s.dec): d = s.dec[s.i]
        else: d = True; s.dec.append(True); s.new = True
        s.i += 1
        s.pc.append(cond if d else Not(cond))
        return d

def load(fn_file, qual):
    tree = ast.parse(open(f'{REPO}/{fn_file}').read())
    cls, name = qual.split('.')
    for n in tree.body:
        if isinstance(n, ast.ClassDef) and n.name == cls:
            for b in n.body:
                if isinstance(b, ast.FunctionDef) and b.name == name: return b
    raise KeyError(qual)

SRC = {q: load(f, q) for f, q in [
    ('tradingenv/exchange.py', 'LimitOrderBook.acq_price'), ('tradingenv/exchange.py', 'LimitOrderBook.liq_price'),
    ('tradingenv/exchange.py', 'LimitOrderBook.mid_price'),
    ('tradingenv/broker/trade.py', 'Trade.__init__'), ('tradingenv/broker/fees.py', 'BrokerFees.commissions'),
    ('tradingenv/broker/broker.py', 'Broker.transact'), ('tradingenv/broker/broker.py', 'Broker.marking_to_market')]}

class Interp:
    def __init__(s, path): s.p = path
    # ---------- expressions
    def ev(s, e, env):
        m = getattr(s, 'e_' + type(e).__name__); return m(e, env)
    def e_Constant(s, e, env): return e.value if not isinstance(e.value, (int, float)) or isinstance(e.value, bool) else (lift(e.value))
    def e_Name(s, e, env):
        if e.id in env: return env[e.id]
        if e.id in ('np', 'ValueError', 'KeyError', 'Cash', 'abs', 'isinstance'): return ('builtin', e.id)
        raise NameError(e.id)
    def e_Attribute(s, e, env):
        o = s.ev(e.value, env)
        if isinstance(o, tuple) and o[0] == 'builtin': return ('builtin', o[1] + '.' + e.attr)
        if isinstance(o, Rec):
            if e.attr in o: return o[e.attr]
            fn = SRC.get(o.cls + '.' + e.attr)
            if fn is not None and any(isinstance(d, ast.Name) and d.id == 'property' for d in fn.decorator_list):
                return s.call(o.cls + '.' + e.attr, o, [])
            return ('method', o, e.attr)
        if is_expr(o) and o.sort() == C:        # contract spec functions
            return {'multiplier': Fl(mult(o)), 'margin_requirement': Fl(mr(o)), 'cash_requirement': Fl(cr(o))}[e.attr]
        raise AttributeError(ast.unparse(e))
    def e_Subscript(s, e, env):
        o = s.ev(e.value, env); k = s.ev(e.slice, env)
        if isinstance(o, Rec) and o.cls == 'Exchange':   # Exchange.__getitem__ (static hashing = identity here)
            return Rec('LimitOrderBook', bid_price=Fl(Select(o['bid'], k), Select(o['bidnan'], k)),
                       ask_price=Fl(Select(o['ask'], k), Select(o['asknan'], k)))
        if isinstance(o, DD):
            if not o.default and not s.p.branch(Select(o.dom, k)): raise Raise('KeyError')
            if o.default: o.dom = Store(o.dom, k, True) if True else o.dom   # defaultdict inserts
            return Fl(If(Select(o.dom, k), Select(o.vals, k), RealVal(0)) if not o.default else Select(o.vals, k), Select(o.nans, k))
        raise TypeError('subscript')
    def e_BinOp(s, e, env):
        a, b = lift(s.ev(e.left, env)), lift(s.ev(e.right, env)); nan = Or(a.nan, b.nan)
        if isinstance(e.op, ast.Add): return Fl(a.v + b.v, nan)
        if isinstance(e.op, ast.Sub): return Fl(a.v - b.v, nan)
        if isinstance(e.op, ast.Mult): return Fl(a.v * b.v, nan)
        if isinstance(e.op, ast.Div): s.p.safety.append(('div0', b.v != 0)); return Fl(a.v / b.v, nan)
        raise NotImplementedError(e.op)
    def e_UnaryOp(s, e, env):
        a = s.ev(e.operand, env)
        if isinstance(e.op, ast.USub): a = lift(a); return Fl(-a.v, a.nan)
        if isinstance(e.op, ast.Not): return Not(a)
        raise NotImplementedError
    def e_Compare(s, e, env):
        assert len(e.ops) == 1
        op = e.ops[0]; l = s.ev(e.left, env); r = s.ev(e.comparators[0], env)
        if isinstance(op, (ast.Is, ast.IsNot)):
            res = BoolVal((l is None) == (r is None)) if (l is None or r is None) else None
            return res if isinstance(op, ast.Is) else Not(res)
        if isinstance(op, (ast.In, ast.NotIn)):
            res = Select(r.dom, l); return res if isinstance(op, ast.In) else Not(res)
        a, b = lift(l), lift(r); ok = And(Not(a.nan), Not(b.nan))
        f = {ast.Lt: lambda: a.v < b.v, ast.LtE: lambda: a.v <= b.v, ast.Gt: lambda: a.v > b.v, ast.GtE: lambda: a.v >= b.v,
             ast.Eq: lambda: a.v == b.v}.get(type(op))
        if f: return And(ok, f())
        if isinstance(op, ast.NotEq): return Or(Not(ok), a.v != b.v)
        raise NotImplementedError(op)
    def e_IfExp(s, e, env):
        return s.ev(e.body, env) if s.p.branch(s.ev(e.test, env)) else s.ev(e.orelse, env)
    def e_BoolOp(s, e, env):
        vals = [s.ev(v, env) for v in e.values]; return And(*vals) if isinstance(e.op, ast.And) else Or(*vals)
    def e_List(s, e, env): return [s.ev(x, env) for x in e.elts]
    def e_Call(s, e, env):
        f = s.ev(e.func, env); args = [s.ev(a, env) for a in e.args]
        if isinstance(f, tuple) and f[0] == 'builtin':
            n = f[1]
            if n == 'np.isnan': return lift(args[0]).nan
            if n == 'abs': a = lift(args[0]); return Fl(If(a.v >= 0, a.v, -a.v), a.nan)
            if n == 'isinstance': return is_cash(args[0]) if args[1] == ('builtin', 'Cash') else BoolVal(False)
            if n in ('ValueError', 'KeyError'): return ('exc', n)
            if n.endswith('.format'): return 'msg'
            raise NotImplementedError(n)
        if isinstance(f, tuple) and f[0] == 'method':
            _, obj, name = f
            if name == 'format': return 'msg'
            return s.call(obj.cls + '.' + name, obj, args)
        raise NotImplementedError(ast.unparse(e))
    def e_JoinedStr(s, e, env): return 'msg'
    # ---------- statements
    def call(s, qual, self_obj, args):
        fn = SRC[qual]; params = [a.arg for a in fn.args.args]
        env = dict(zip(params, [self_obj] + list(args)))
        for a, d in zip(reversed(params), reversed(fn.args.defaults)):      # defaults
            if a not in env: env[a] = s.ev(d, {})
        is_prop = any(isinstance(d, ast.Name) and d.id == 'property' for d in fn.decorator_list)
        try: s.block(fn.body, env)
        except Ret as r: return r.val
        return None
    def block(s, stmts, env):
        for st in stmts: getattr(s, 's_' + type(st).__name__)(st, env)
    def s_Expr(s, st, env):
        if isinstance(st.value, ast.Constant): return       # docstring
        s.ev(st.value, env)
    def s_Assign(s, st, env):
        v = s.ev(st.value, env)
        for t in st.targets: s.assign(t, v, env)
    def s_AugAssign(s, st, env):
        cur = s.ev(ast.copy_location(ast.Subscript(st.target.value, st.target.slice, ast.Load()), st.target) if isinstance(st.target, ast.Subscript) else
                   ast.copy_location(ast.Name(st.target.id, ast.Load()), st.target), env)
        rhs = lift(s.ev(st.value, env)); cur = lift(cur)
        v = Fl(cur.v + rhs.v, Or(cur.nan, rhs.nan)) if isinstance(st.op, ast.Add) else Fl(cur.v - rhs.v, Or(cur.nan, rhs.nan))
        s.assign(st.target, v, env)
    def assign(s, t, v, env):
        if isinstance(t, ast.Name): env[t.id] = v
        elif isinstance(t, ast.Attribute): s.ev(t.value, env)[t.attr] = v
        elif isinstance(t, ast.Subscript):
            o = s.ev(t.value, env); k = s.ev(t.slice, env); v = lift(v)
            o.vals = Store(o.vals, k, v.v); o.nans = Store(o.nans, k, v.nan); o.dom = Store(o.dom, k, True)
        else: raise NotImplementedError
    def s_If(s, st, env):
        c = s.ev(st.test, env)
        s.block(st.body if s.p.branch(c) else st.orelse, env)
    def s_For(s, st, env):
        it = s.ev(st.iter, env); assert isinstance(it, list)     # concrete list of symbolic refs: unrolled
        for x in it:
            s.assign(st.target, x, env)
            try: s.block(st.body, env)
            except Cont: pass
    def s_Continue(s, st, env): raise Cont()
    def s_Return(s, st, env): raise Ret(s.ev(st.value, env) if st.value else None)
    def s_Raise(s, st, env): raise Raise(st.exc.func.id if isinstance(st.exc, ast.Call) else '?')   # message text dropped
    def s_Try(s, st, env):
        try: s.block(st.body, env)
        except Raise as r:
            for h in st.handlers:
                if h.type.id == r.typ: s.block(h.body, env); return
            raise

def run_all(fn):
    """enumerate all paths by re-execution with decision prefixes"""
    out = []; stack = [[]]
    while stack:
        dec = stack.pop(); p = Path(dec); p.safety = []
        try: res = ('ok', fn(Interp(p)))
        except Raise as r: res = ('raise', r.typ)
        # schedule sibling branches for every decision made beyond the given prefix
        for j in range(len(dec), len(p.dec)):
            stack.append(p.dec[:j] + [False])
        out.append((p, res))
    return out

# ---------------- symbolic pre-state and the transact obligation
def absr(x): return If(x >= 0, x, -x)
def liq(q, bid, ask): return If(q > 0, bid, If(q < 0, ask, (bid + ask) / 2))

def transact_paths():
    c = Const('c', C); cash = Const('cash', C)
    q0v = Array('qty0', C, RealSort()); m0 = Array('marg0', C, RealSort()); l0 = Array('last0', C, RealSort()); l0d = Array('last0dom', C, BoolSort())
    bid = Array('bid', C, RealSort()); ask = Array('ask', C, RealSort())
    F = lambda name: Array(name, C, BoolSort())
    nonan = K(C, False)
    dq = Real('dq'); fx, fp, eps = Reals('fx fp eps')
    def go(I):
        exch = Rec('Exchange', bid=bid, ask=ask, bidnan=nonan, asknan=nonan)
        fees = Rec('BrokerFees', fixed=Fl(fx), proportional=Fl(fp))
        broker = Rec('Broker', exchange=exch, base_currency=cash, fees=fees, _epsilon=Fl(eps),
                     _holdings_quantity=DD(q0v, nonan, K(C, True)), _holdings_margins=DD(m0, nonan, K(C, True)),
                     _last_marking_to_market_price=DD(l0, nonan, l0d, default=False))
        trade = Rec('Trade')
        I.call('Trade.__init__', trade, [None, c, Fl(dq), Fl(Select(bid, c)), Fl(Select(ask, c)), fees])
        I.call('Broker.transact', broker, [trade])
        return broker, trade
    pre = And(c != cash, is_cash(cash), Not(is_cash(c)), mult(cash) == 1, cr(cash) == 1, mr(cash) == 0, Select(bid, cash) == 1, Select(ask, cash) == 1,
              0 < Select(bid, c), Select(bid, c) <= Select(ask, c), mult(c) > 0, fx >= 0, fp >= 0, eps > 0,
              Or(And(cr(c) == 1, mr(c) == 0), And(cr(c) == 0, 0 < mr(c), mr(c) <= 1)),
              # WF: margins of non-margined = 0 ; never traded => flat & no margin ; margins >= 0
              Implies(mr(c) == 0, Select(m0, c) == 0), Select(m0, c) >= 0, Select(m0, cash) == 0,
              Implies(And(mr(c) != 0, Not(Select(l0d, c))), And(Select(q0v, c) == 0, Select(m0, c) == 0)))
    def equity(qv, mv, lv, ld, with_mult):
        tot = 0
        for k in (c, cash):
            qk = Select(qv, k); lk = liq(qk, Select(bid, k), Select(ask, k))
            pend = If(And(mr(k) != 0, Select(ld, k)), qk * mult(k) * (lk - Select(lv, k)), 0)
            tot = tot + Select(mv, k) + pend + cr(k) * qk * lk * (mult(k) if with_mult else 1)
        return tot
    return c, cash, dq, pre, go, equity, (q0v, m0, l0, l0d, bid, ask), eps

def main():
    c, cash, dq, pre, go, equity, (q0v, m0, l0, l0d, bid, ask), eps = transact_paths()
    t0 = time.time(); paths = run_all(go); print(f"paths enumerated: {len(paths)} in {time.time()-t0:.2f}s")
    for region_name, region in [('all inputs', BoolVal(True)), ('excluding dust region 0<|q+dq|<eps', Not(And(absr(Select(q0v, c) + dq) < eps, Select(q0v, c) + dq != 0)))]:
        for with_mult in (False, True):
            feas = bad = 0; raises = {}; cex = None; t0 = time.time()
            for p, res in paths:
                s = Solver(); s.add(pre, region, *p.pc)
                if s.check() != sat: continue
                feas += 1
                if res[0] == 'raise': raises[res[1]] = raises.get(res[1], 0) + 1; continue
                broker, trade = res[1]
                Q, M, L = broker['_holdings_quantity'], broker['_holdings_margins'], broker['_last_marking_to_market_price']
                q, q2 = Select(q0v, c), Select(q0v, c) + dq
                acq = trade['acq_price'].v; comm = trade['cost_of_commissions'].v
                post = equity(Q.vals, M.vals, L.vals, L.dom, with_mult) - equity(q0v, m0, l0, l0d, with_mult) == \
                    -comm + mult(c) * (q2 * liq(q2, Select(bid, c), Select(ask, c)) - q * liq(q, Select(bid, c), Select(ask, c)) - dq * acq)
                s.add(Not(post))
                r = s.check()
                if r != unsat:
                    bad += 1
                    if cex is None and r == sat:
                        m = s.model(); ev = lambda e: m.eval(e, model_completion=True)
                        cex = dict(q=ev(q), dq=ev(dq), bid=ev(Select(bid, c)), ask=ev(Select(ask, c)), mult=ev(mult(c)), mr=ev(mr(c)), cr=ev(cr(c)), last=ev(Select(l0, c)), marg=ev(Select(m0, c)), eps=ev(eps))
            print(f"[{region_name}] spot valued with multiplier in spec={with_mult}: feasible paths={feas} raising={raises} paths violating nlv_delta={bad}  ({time.time()-t0:.2f}s)")
            if cex: print("    counterexample:", cex)

main()
