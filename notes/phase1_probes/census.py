import ast, collections, sys
targets = {
 'tradingenv/broker/broker.py': ['Broker.__init__','Broker.rebalance','Broker.transact','Broker.marking_to_market','Broker.holdings_values','Broker.holdings_weights','Broker.net_liquidation_value','Broker.accrued_interest','Broker.context'],
 'tradingenv/broker/trade.py': ['Trade.__init__'],
 'tradingenv/broker/fees.py': ['BrokerFees.commissions','IBrokerFees.__init__'],
 'tradingenv/broker/rebalancing.py': ['Rebalancing.__init__','Rebalancing.make_trades'],
 'tradingenv/broker/allocation.py': ['_Allocation.__init__','_Allocation.__sub__','Weights._to_weights','Weights._to_nr_contracts','NrContracts._to_weights','NrContracts._to_nr_contracts'],
 'tradingenv/broker/track_record.py': ['TrackRecord.__init__','TrackRecord._checkpoint','TrackRecord.__getitem__','TrackRecord.__len__'],
 'tradingenv/exchange.py': ['LimitOrderBook.__init__','LimitOrderBook.mid_price','LimitOrderBook.liq_price','LimitOrderBook.acq_price','LimitOrderBook.update','LimitOrderBook.terminate','Exchange.__init__','Exchange.__getitem__','Exchange.process_EventNBBO','Exchange.process_EventContractDiscontinued'],
 'tradingenv/events.py': ['IEvent.notify','EventNBBO.__init__'],
 'tradingenv/rewards.py': ['RewardPnL.calculate','RewardLogReturn.calculate','LogReturn.calculate','RewardSimpleReturn.calculate'],
 'tradingenv/spaces.py': ['PortfolioSpace.null_action','PortfolioSpace.make_rebalancing_request','DiscretePortfolio._make_allocation','BoxPortfolio._make_allocation','BoxPortfolio.contains'],
 'tradingenv/transmitter.py': ['PartitionTimeRanges.__init__','PartitionTimeRanges.verify_start_before_end','Transmitter._reset','Transmitter._next','Transmitter._create_partitions','Transmitter._min_timesteps_diff','Transmitter.walk_forward','Transmitter.add_prices'],
 'tradingenv/env.py': ['TradingEnv.reset','TradingEnv.step','TradingEnv.notify','TradingEnv._is_new_date','TradingEnv._process_latent_events','TradingEnv._process_nonlatent_events','TradingEnv.now'],
 'tradingenv/contracts.py': ['FutureChain.__init__','FutureChain._lead_contract_idx','FutureChain.lead_contract','FutureChain.static_hashing','Future.__init__','ES._get_expiry_date','ES._get_last_trading_date','VX._get_expiry_date','NK._get_expiry_date','AbstractContract.__eq__','AbstractContract.__hash__'],
 'tradingenv/state.py': ['State.__init__','State.process_EventNewObservation','State.parse'],
 'tradingenv/metrics.py': ['validate','level'],
}
tot=collections.Counter(); calls=collections.Counter(); nlines=0; nfun=0
for f,names in targets.items():
    tree=ast.parse(open('/repo/'+f).read())
    idx={}
    for node in ast.walk(tree):
        if isinstance(node,ast.ClassDef):
            for b in node.body:
                if isinstance(b,ast.FunctionDef): idx[node.name+'.'+b.name]=b
    for node in tree.body:
        if isinstance(node,ast.FunctionDef): idx[node.name]=node
    for n in names:
        fn=idx.get(n)
        if fn is None: print("MISSING",f,n); continue
        nfun+=1; nlines+=fn.end_lineno-fn.lineno+1
        body=fn.body[1:] if (fn.body and isinstance(fn.body[0],ast.Expr) and isinstance(getattr(fn.body[0],'value',None),ast.Constant)) else fn.body
        for st in body:
            for x in ast.walk(st):
                tot[type(x).__name__]+=1
                if isinstance(x,ast.Call):
                    try: calls[ast.unparse(x.func)]+=1
                    except Exception: pass
print(nfun,"functions",nlines,"lines incl docstrings")
skip={'Load','Store','Name','Constant','Attribute','Expr'}
print({k:v for k,v in tot.most_common() if k not in skip})
print()
print(sorted(calls.items(), key=lambda kv:-kv[1]))
