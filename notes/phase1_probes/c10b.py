import warnings; warnings.filterwarnings("ignore")
from tradingenv.env import TradingEnv
from tradingenv.contracts import ETF
from tradingenv.spaces import BoxPortfolio
from datetime import datetime, timedelta
import numpy as np, pandas as pd
d=datetime(2020,1,1); grid=[d+timedelta(days=i) for i in range(5)]
a,b=ETF('A'),ETF('B')
ea=TradingEnv(action_space=BoxPortfolio([a]),prices=pd.DataFrame({a:[1.,2,3,4,5]},index=grid))
eb=TradingEnv(action_space=BoxPortfolio([b]),prices=pd.DataFrame({b:[10.,20,30,40,50]},index=grid))
oa=ea.reset(); ob=eb.reset()
print("same obs object:", oa is ob, "| A's obs sees A's broker:", oa.broker is ea.broker, "| sees B's:", oa.broker is eb.broker)
o,_,_,_=ea.step(np.array([1.0])); print("after A.step: obs.exchange is A's:", o.exchange is ea.exchange)
