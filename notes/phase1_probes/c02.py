import warnings; warnings.filterwarnings("ignore")
from tradingenv.env import TradingEnv, TradingEnvXY
from tradingenv.transmitter import Transmitter
from tradingenv.contracts import ETF, ES
from tradingenv.events import EventNBBO, EventNewObservation
from tradingenv.spaces import BoxPortfolio
from tradingenv.state import State
from tradingenv.broker.fees import BrokerFees
from datetime import datetime, timedelta
import numpy as np, pandas as pd
def run(stream_vals, seed, latency, delay, cut_idx=None, perturb=None):
    rng=np.random.default_rng(seed)
    d=datetime(2020,1,6,9); n=len(stream_vals)
    grid=[d+timedelta(days=i) for i in range(n)]
    spy=ETF('SPY'); tr=Transmitter(grid); evs=[]
    for i,g in enumerate(grid):
        p=stream_vals[i]
        evs.append(EventNBBO(g,spy,p*0.999,p*1.001))
        evs.append(EventNBBO(g+timedelta(seconds=30),spy,p*1.01*0.999,p*1.01*1.001))
        evs.append(EventNBBO(g+timedelta(seconds=90),spy,p*0.99*0.999,p*0.99*1.001))
        evs.append(EventNewObservation(g,{'f':p/100}))
    tr.add_events(evs)
    env=TradingEnv(action_space=BoxPortfolio([spy],-1,1),state=State(1,window=2,max_=1e9),transmitter=tr,latency=latency,steps_delay=delay,broker_fees=BrokerFees(proportional=0.001))
    out=[]; obs=env.reset(); out.append((env.now(),('obs',obs.tolist())))
    acts=np.random.default_rng(123).uniform(-1,1,n)
    done=False;k=0
    while not done:
        obs,r,done,info=env.step(np.array([acts[k]])); k+=1
        rb=info.get('_rebalancing')
        out.append((env.now(),('obs',obs.tolist(),'r',r,'nlv',env.broker.net_liquidation_value(),'hold',{str(a):b for a,b in env.broker.holdings_quantity.items()},
                   'trades',[(str(t.contract),t.quantity,t.acq_price) for t in rb.trades] if rb else None)))
    return grid,out
base=list(100*np.exp(np.cumsum(np.random.default_rng(1).normal(0,.02,8))))
bad=0;n=0
for latency in (0,45,100):
  for delay in (0,1):
    grid,ref=run(base,0,latency,delay)
    for cut in range(1,len(base)-1):
        pert=list(base); 
        for j in range(cut+1,len(base)): pert[j]=base[j]*1.5
        _,alt=run(pert,0,latency,delay)
        t=grid[cut]
        # outputs of the step that lands on timestep t have now() <= t + 90s? the step landing on t processes events up to t (stamped <= t)
        a=[o for o in ref if o[0]<=t]; b=[o for o in alt if o[0]<=t]; n+=1
        if a!=b: bad+=1; print("LOOKAHEAD latency",latency,"delay",delay,"cut",cut)
print("TradingEnv prefix runs",n,"bad",bad)
# tabular
idx=pd.bdate_range('2021-01-04',periods=40); rng=np.random.default_rng(3)
Y=pd.DataFrame({'A':100*np.exp(np.cumsum(rng.normal(0,.01,40)))},index=idx); X=pd.DataFrame({'f':rng.normal(0,1,40),'g':rng.normal(0,1,40)},index=idx)
def runxy(X,Y,tend,transformer,window):
    env=TradingEnvXY(X,Y,transformer=transformer,transformer_end=tend,window=window,steps_delay=1,spread=0.001)
    out=[]; obs=env.reset(); out.append((env.now(),obs.tolist()))
    acts=np.random.default_rng(5).uniform(-1,1,60); k=0; done=False
    while not done:
        obs,r,done,_=env.step(np.array([acts[k]])); k+=1; out.append((env.now(),obs.tolist(),r,env.broker.net_liquidation_value()))
    return out
bad=0;n=0
for transformer in (None,'z-score','yeo-johnson'):
  for window in (1,3):
    for cut in (15,25,35):
        t=idx[cut]; tend=idx[10]
        X2=X.copy(); Y2=Y.copy(); X2.iloc[cut+1:]*=3; Y2.iloc[cut+1:]*=1.3
        a=[o for o in runxy(X,Y,tend,transformer,window) if o[0]<=t]; b=[o for o in runxy(X2,Y2,tend,transformer,window) if o[0]<=t]; n+=1
        if a!=b: bad+=1; print("XY LOOKAHEAD",transformer,window,cut, [i for i,(x,y) in enumerate(zip(a,b)) if x!=y][:3])
print("XY prefix runs",n,"bad",bad)
