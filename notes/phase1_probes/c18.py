import warnings; warnings.filterwarnings("ignore")
from tradingenv.env import TradingEnvXY
import numpy as np, pandas as pd
rng=np.random.default_rng(0)
idx=pd.bdate_range('2021-01-01',periods=60)
Y=pd.DataFrame({'A':100*np.exp(np.cumsum(rng.normal(0,.01,60))),'B':50*np.exp(np.cumsum(rng.normal(0,.01,60)))},index=idx)
X=pd.DataFrame({'f1':rng.normal(0,1,60),'f2':rng.normal(0,1,60)},index=idx)
for window,stride in [(1,None),(3,None),(4,2)]:
    env=TradingEnvXY(X,Y,transformer='z-score',window=window,stride=stride,spread=0.01,steps_delay=0)
    obs=env.reset()
    t=env.now(); 
    exp=env.X.loc[:t].iloc[-window:].values
    if stride: exp=exp[::-stride][::-1]
    print("window",window,"stride",stride,"t0",t,"first timestep",env._transmitter.timesteps[0],"obs ok",np.allclose(obs,exp), obs.shape, env.observation_space.shape)
    a=env.exchange[env.Y.columns[0]]
    print("   quote",a.bid_price,a.ask_price,"Y",env.Y.loc[t].iloc[0], "ratio",(a.ask_price-a.bid_price)/env.Y.loc[t].iloc[0])
    o2,r,done,info=env.step(np.array([0.5,0.5])); t=env.now()
    exp=env.X.loc[:t].iloc[-window:].values
    if stride: exp=exp[::-stride][::-1]
    print("   step obs ok",np.allclose(o2,exp),"now",t)
