import warnings; warnings.filterwarnings("ignore")
import sys
from tradingenv.env import TradingEnv
from tradingenv.transmitter import Transmitter
from tradingenv.contracts import ETF, ES, FutureChain, Cash, AbstractContract
from tradingenv.events import EventNBBO
from tradingenv.spaces import BoxPortfolio
from datetime import datetime, timedelta
import numpy as np, pandas as pd
def mk(start):
    chain=FutureChain(ES,'2019-03','2020-06')
    grid=list(pd.date_range(start,periods=8,freq='7D').to_pydatetime())
    tr=Transmitter(grid)
    for c in chain.contracts:
        for g in grid:
            if g<c.expiry: tr.add_events([EventNBBO(g,c,3000,3000)])
    return TradingEnv(action_space=BoxPortfolio([chain],-2,2),transmitter=tr)
def trace(env,n):
    out=[]
    for i in range(n):
        env.step(np.array([1.0])); out.append({str(k):round(v,6) for k,v in env.broker.holdings_quantity.items() if v!=0 and not isinstance(k,Cash)})
    return out
a=mk('2019-02-20'); a.reset(); ta=trace(a,6)
b=mk('2019-08-20'); b.reset(); tb=trace(b,6)
print("alone A",ta[-1]); print("alone B",tb[-1])
a=mk('2019-02-20'); b=mk('2019-08-20'); a.reset(); b.reset()
ia=[];ib=[]
try:
    for i in range(6):
        a.step(np.array([1.0])); ia.append({str(k):round(v,6) for k,v in a.broker.holdings_quantity.items() if v!=0 and not isinstance(k,Cash)})
        b.step(np.array([1.0])); ib.append({str(k):round(v,6) for k,v in b.broker.holdings_quantity.items() if v!=0 and not isinstance(k,Cash)})
    print("interleaved A",ia[-1], ia==ta); print("interleaved B",ib[-1], ib==tb)
except Exception as e:
    print("interleaved raised",type(e).__name__,e, ia, ib)
