import time
from z3 import *
C=DeclareSort('Contract')
# --- _Allocation.__sub__ loop: for k,v in other.items(): mapping[k] = mapping.get(k,0) - v
selfv=Array('selfv',C,RealSort()); selfd=Array('selfd',C,BoolSort())
oth=Array('oth',C,RealSort()); othd=Array('othd',C,BoolSort())
mv=Array('mv',C,RealSort()); md=Array('md',C,BoolSort()); done=Array('done',C,BoolSort())
k=Const('k',C); x=Const('x',C)
def get(v,d,key): return If(Select(d,key),Select(v,key),RealVal(0))
def inv(mv,md,done):
    return ForAll([k], And(
        Select(md,k)==Or(Select(selfd,k),Select(done,k)),
        get(mv,md,k)==If(Select(done,k), get(selfv,selfd,k)-Select(oth,k), get(selfv,selfd,k)),
        Implies(Select(done,k),Select(othd,k))))
# preservation
mv2=Store(mv,x,get(mv,md,x)-Select(oth,x)); md2=Store(md,x,True); done2=Store(done,x,True)
s=Solver(); s.add(inv(mv,md,done), Select(othd,x), Not(Select(done,x)), Not(inv(mv2,md2,done2)))
t=time.time(); print("__sub__ preserve:", s.check(), round(time.time()-t,3))
# exit: done == othd  => pointwise post at skolem c
c=Const('c',C)
s=Solver(); s.add(inv(mv,md,done), ForAll([k],Select(done,k)==Select(othd,k)))
post=And(Select(md,c)==Or(Select(selfd,c),Select(othd,c)), get(mv,md,c)==get(selfv,selfd,c)-get(oth,othd,c))
s.add(Not(post)); t=time.time(); print("__sub__ exit⇒post:", s.check(), round(time.time()-t,3))
# --- delay line: queue as array q[0..d-1], q[i]=sub[n-1-i]; appendleft(a); pop -> returns sub[n-d]
A=DeclareSort('Action'); q=Array('q',IntSort(),A); sub=Array('sub',IntSort(),A)
d,n,i=Ints('d n i'); a=Const('a',A)
invq=ForAll([i],Implies(And(0<=i,i<d), Select(q,i)==Select(sub,n-1-i)))
q2=Lambda([i], If(i==0,a,Select(q,i-1)))  # appendleft, len d+1 (== maxlen, no eviction)
popped=Select(q2,d)                         # pop() returns rightmost
sub2=Store(sub,n,a)
q3=q2                                       # remaining q3[0..d-1]
post=And(popped==Select(sub2,n-d), ForAll([i],Implies(And(0<=i,i<d), Select(q3,i)==Select(sub2,(n+1)-1-i))))
s=Solver(); s.add(d>=0,n>=0,invq,Not(post)); t=time.time(); print("delay line step:", s.check(), round(time.time()-t,3))
