"""C17 - only in-space actions are executed, as the allocation they denote (DESIGN §7 C17)."""
ID = "C17"
LEVEL = "proof"
FUNCTIONS = ["BoxPortfolio.contains", "_Allocation.__init__", "PortfolioSpace.make_rebalancing_request", "TradingEnv.step", "TradingEnv.reset"]
LEVEL_TEXT = ("Deductive: BoxPortfolio.contains is proved equivalent to `right length and every component within bounds` (a NaN "
              "component is outside) over arrays of symbolic length; make_rebalancing_request raises ValueError iff the action is "
              "not in the space (Discrete.contains is the trusted gymnasium model: integers in range only) and otherwise builds the "
              "Rebalancing whose allocation is, key by key, the action's entry for that contract with cash and zero entries dropped; "
              "TradingEnv.step's exit for an out-of-space due action is proved to precede Broker.rebalance (no trade, no record), "
              "with the due action taken from the FIFO delay line. Execution of the allocation is C03.")
EXPLANATION = LEVEL_TEXT
EXTRA_ASSUMPTIONS = [
    "TradingEnv.reset is verified to establish the environment invariant that TradingEnv.step assumes at entry and re-establishes at exit, modulo ASSUMED summaries (IState.reset, Transmitter._reset, Transmitter._next, IState.__call__) and TRUSTED small models (sorted() as a permutation ordered by IEvent.__lt__ - itself executed -, Cash() as one fixed cash key with the precondition that the space's base currency is that key, defaultdict(LimitOrderBook) as an empty book table whose rows read NaN : NaN, alive, AbstractContract.verify/Rate.verify, np.inf as an unconstrained constant); the configuration clauses (fees >= 0, contract specs in the property's regime, reward parameters, 0 within the box bounds) are preconditions of reset",
    "A4: gymnasium Space.__contains__ -> contains; Discrete.contains accepts integers in [start, start+n) only; Space.sample returns a member",
    "TRUSTED: the contracts of an action space have pairwise distinct static hashes (PortfolioSpace.__init__ rejects duplicates; the source notes the FutureChain/Future corner)",
    "ASSUMED contracts: IState.__call__, Transmitter._next; input assumption of TradingEnv._process_*_events: delivered quotes stay within the property's quantifier",
]

from shell import c08 as _c08
SHELL = [_c08.timing]
