"""C17 - only in-space actions are executed, as the allocation they denote (DESIGN §7 C17)."""
ID = "C17"
LEVEL = "proof"
FUNCTIONS = ["BoxPortfolio.contains", "_Allocation.__init__", "PortfolioSpace.make_rebalancing_request", "TradingEnv.step"]
LEVEL_TEXT = ("Deductive: BoxPortfolio.contains is proved equivalent to `right length and every component within bounds` (a NaN "
              "component is outside) over arrays of symbolic length; make_rebalancing_request raises ValueError iff the action is "
              "not in the space (Discrete.contains is the trusted gymnasium model: integers in range only) and otherwise builds the "
              "Rebalancing whose allocation is, key by key, the action's entry for that contract with cash and zero entries dropped; "
              "TradingEnv.step's exit for an out-of-space due action is proved to precede Broker.rebalance (no trade, no record), "
              "with the due action taken from the FIFO delay line. Execution of the allocation is C03.")
EXPLANATION = LEVEL_TEXT
EXTRA_ASSUMPTIONS = [
    "A4: gymnasium Space.__contains__ -> contains; Discrete.contains accepts integers in [start, start+n) only; Space.sample returns a member",
    "TRUSTED: the contracts of an action space have pairwise distinct static hashes (PortfolioSpace.__init__ rejects duplicates; the source notes the FutureChain/Future corner)",
    "ASSUMED contracts: IState.__call__, Transmitter._next; input assumption of TradingEnv._process_*_events: delivered quotes stay within the property's quantifier",
]

from shell import c08 as _c08
SHELL = [_c08.timing]
