"""C18 - the tabular environment serves exactly the data it was given (DESIGN §7 C18)."""
from shell import c18

ID = "C18"
LEVEL = "other"
FUNCTIONS = []
SHELL = [c18.tabular]
LEVEL_TEXT = ("Bounded shell: tables with gaps, differing index ranges and exchange holidays; every step's observation is compared with "
              "the published transformed table, quotes with the given prices and spread, the rate with the given rate, step dates with "
              "the price table and the exchange calendar. TradingEnvXY's data preparation is pandas/scikit-learn/market-calendar code "
              "(A5): no contract within reach of the verifier can be discharged against those libraries.")
EXPLANATION = LEVEL_TEXT
NOT_DEDUCTIVE = ["TradingEnvXY.__init__, _make_timesteps, _make_transmitter (pandas, sklearn, pandas_market_calendars: A5)"]

import ast, z3
from pyvc import front, lemma


def lemma_window(tier):
    """L (index arithmetic over the expressions found in the AST of tradingenv/state.py; numpy/deque semantics are trusted, A3):
    the observation is the last `window` rows thinned by the stride from the most recent backwards, of the declared shape."""
    rel = "tradingenv/state.py"
    init = ast.unparse(front.strip(front.find(rel, "State.__init__")))
    parse = ast.unparse(front.strip(front.find(rel, "State.parse")))
    obs = ast.unparse(front.strip(front.find(rel, "State.process_EventNewObservation")))
    out = [
        lemma.binds("C18::lemma::state_uses_the_modelled_expressions",
                    all(x in init for x in ("deque(maxlen=window)", "math.ceil(window / stride)", "m = window if stride is None else")) and
                    all(x in parse for x in ("np.concatenate(self.queue)", "x[::-self.stride][::-1]", "if self.stride:")) and
                    all(x in obs for x in ("for _ in range(self.queue.maxlen):", "self.queue.append([event.to_list()])", "if self.last_event is None:")),
                    "State: queue = deque(maxlen=window), pre-filled with the first observation, one append per observation; "
                    "parse = concatenate(queue)[::-stride][::-1]; declared rows = window or ceil(window/stride)"),
    ]
    # numpy: x[::-s] on n rows selects n-1, n-1-s, ... while >= 0 (count = ceil(n/s)); [::-1] reverses that selection.
    n, s, m, j = z3.Ints("n s m j")
    hyp = [n >= 1, s >= 1, m * s >= n, (m - 1) * s < n]              # m = ceil(n / s), stated without division
    idx = lambda jj: (n - 1) - (m - 1 - jj) * s                       # source row of output row jj
    out.append(lemma.prove("C18::lemma::thinned_from_the_most_recent_backwards", hyp + [0 <= j, j < m],
                           z3.And(idx(j) >= 0, idx(j) <= n - 1, idx(m - 1) == n - 1, idx(0) - s < 0,
                                  z3.Implies(j + 1 < m, idx(j + 1) - idx(j) == s)),
                           detail="output row j is source row n-1-(m-1-j)*stride: the most recent row is kept, rows are stride apart, "
                                  "in time order, and no further row would fit before the first"))
    return out


LEMMAS = [lemma_window]
LEVEL_TEXT = LEVEL_TEXT + (" Lemma level (added): the index arithmetic of State.__init__/parse/process_EventNewObservation read from the AST: "
                           "rows kept are the most recent one and every stride-th before it, in time order, declared row count = ceil(window/stride).")
EXPLANATION = LEVEL_TEXT
