"""C18 - the tabular environment serves exactly the data it was given (DESIGN §7 C18)."""
from shell import c18

ID = "C18"
LEVEL = "other"
FUNCTIONS = []
SHELL = [c18.tabular]
LEVEL_TEXT = ("Bounded shell: tables with gaps, differing index ranges and exchange holidays; every step's observation is compared with "
              "the published transformed table, quotes with the given prices and spread, the rate with the given rate, step dates with "
              "the price table and the exchange calendar. TradingEnvXY's data preparation is pandas/scikit-learn/market-calendar code "
              "(A5): no contract within reach of the verifier can be discharged against those libraries.")
EXPLANATION = LEVEL_TEXT
NOT_DEDUCTIVE = ["TradingEnvXY.__init__, _make_timesteps, _make_transmitter (pandas, sklearn, pandas_market_calendars: A5)"]
