"""C15 - episodes stay inside their fold; episode length and walk-forward are exact (DESIGN §7 C15)."""
from shell import c08, c15

ID = "C15"
LEVEL = "other"
FUNCTIONS = []
SHELL = [c08.decisions, c15.folds]
LEVEL_TEXT = ("Arithmetic kernel (SMT lemmas over the index expressions read from the AST of Transmitter._reset and walk_forward): the start index "
              "ranges over exactly the positions where the episode fits, the slice has the requested length and stays inside the fold, "
              "walk-forward test windows have the requested size, are disjoint, ordered and begin right after their training window; "
              "TradingEnv.__init__ adds one state to a configured number of decisions. Bounded shell: the real numpy/pandas code on "
              "enumerated grids, folds (with event-less timesteps), lengths, seeds, and the configured length surviving one-off overrides. "
              "The numpy mask/slice semantics themselves are library code (A3/A5) and are exercised, not proved.")
EXPLANATION = LEVEL_TEXT

import ast, z3
from pyvc import front, lemma
NOT_DEDUCTIVE = ["numpy boolean masks / slices / random.choice inside Transmitter._reset (A3): the index arithmetic is proved as lemmas over the "
                 "expressions found in the AST, the array operations are exercised by the bounded shell"]


def lemma_index_arithmetic(tier):
    rel = "tradingenv/transmitter.py"
    rs = ast.unparse(front.strip(front.find(rel, "Transmitter._reset")))
    wf = ast.unparse(front.strip(front.find(rel, "Transmitter.walk_forward")))
    env_init = ast.unparse(front.strip(front.find("tradingenv/env.py", "TradingEnv.__init__")))
    out = [
        lemma.binds("C15::lemma::reset_uses_the_modelled_expressions",
                    all(x in rs for x in ("steps[start_date <= steps]", "steps[steps <= end_date]", "steps[:-(episode_length - 1)]",
                                          "np.random.choice(range(len(start_dates)), p=p)", "end_date_idx = start_date_idx + episode_length - 1",
                                          "steps[start_date_idx:end_date_idx + 1]")),
                    "Transmitter._reset: inclusive fold masks, start positions steps[:-(L-1)], uniform choice over them, slice [i : i+L-1+1]"),
        lemma.binds("C15::lemma::walk_forward_uses_the_modelled_expressions",
                    all(x in wf for x in ("count[:-train_size - test_size + 1:test_size]", "train_start * int(sliding_window)", "train_start + train_size - 1",
                                          "train_start + train_size", "train_start + train_size + test_size - 1")),
                    "Transmitter.walk_forward: starts 0, test, 2*test, ... < n - train - test + 1"),
        lemma.binds("C15::lemma::configured_decisions_plus_one_state", "episode_length += 1" in env_init,
                    "TradingEnv.__init__ turns a configured number of decisions n into n+1 states"),
    ]
    N, Lh, i, j = z3.Ints("N L i j")
    hyp = [Lh >= 2, N >= Lh, 0 <= i, i < N - (Lh - 1)]            # start_dates = steps[:-(L-1)] has N-(L-1) elements; i drawn from range(len(start_dates))
    out.append(lemma.prove("C15::lemma::episode_fits", hyp, z3.And(i + Lh - 1 <= N - 1, (i + Lh - 1 + 1) - i == Lh),
                           detail="every drawn start leaves room for L states; the slice has exactly L elements"))
    out.append(lemma.prove("C15::lemma::every_fitting_start_is_drawable", [Lh >= 2, N >= Lh, 0 <= j, j + Lh - 1 <= N - 1], z3.And(0 <= j, j < N - (Lh - 1)),
                           detail="a start where the episode fits is an index of start_dates (positive probability under the uniform choice)"))
    out.append(lemma.prove("C15::lemma::refused_iff_none_fits", [Lh >= 2, N >= 0], (N - (Lh - 1) <= 0) == (N < Lh),
                           detail="np.random.choice over an empty range raises ValueError exactly when no position fits"))
    n, tr, te, k = z3.Ints("n train test k")
    ts = k * te
    wfh = [tr >= 1, te >= 1, n >= tr + te, k >= 0, ts < n - tr - te + 1]
    vs, ve, vs2 = ts + tr, ts + tr + te - 1, (k + 1) * te + tr
    out.append(lemma.prove("C15::lemma::walk_forward_windows", wfh, z3.And(ve - vs + 1 == te, vs == (ts + tr - 1) + 1, ve < vs2, ve <= n - 1, vs >= 0),
                           detail="test window k: requested size, adjacent to its training window, before the next test window, inside the grid"))
    return out


LEMMAS = [lemma_index_arithmetic]
