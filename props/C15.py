"""C15 - episodes stay inside their fold; episode length and walk-forward are exact (DESIGN §7 C15)."""
from shell import c08, c15

ID = "C15"
LEVEL = "other"
FUNCTIONS = []
SHELL = [c08.decisions, c15.folds]
LEVEL_TEXT = ("bounded shell (kernel pending)")
EXPLANATION = LEVEL_TEXT
