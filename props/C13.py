"""C13 - missing prices fail loudly; a rebalance is all-or-nothing (DESIGN §7 C13)."""
from shell import replayers

ID = "C13"
LEVEL = "proof"
FUNCTIONS = ["LimitOrderBook.acq_price", "LimitOrderBook.liq_price", "Trade.__init__", "Broker.holdings_values",
             "Broker.net_liquidation_value", "Broker.context", "Weights._to_nr_contracts", "NrContracts._to_weights",
             "Rebalancing.make_trades", "Broker.transact", "Broker.rebalance", "Exchange.process_EventContractDiscontinued", "Exchange.process_EventNBBO", "LimitOrderBook.terminate"]
REPLAYERS = [
    ("Trade.__init__::", replayers.trade_init),
("Rebalancing.make_trades::raises::ValueError::sound", replayers.make_trades_raises)]
LEVEL_TEXT = ("Deductive, with NaN first-class in the value domain: holdings_values / net_liquidation_value raise ValueError iff some "
              "non-zero position lacks its liquidation-side quote (soundness and completeness of the raise condition on every path; "
              "flat positions never need a quote); every exceptional exit of Broker.rebalance (from accrued_interest, context, "
              "make_trades) is proved to leave every contract position and the track record unchanged and to precede the first "
              "transact; transact itself has no exceptional exit under valid trade quotes.")
EXPLANATION = LEVEL_TEXT
EXTRA_ASSUMPTIONS = ["TrackRecord._checkpoint is verified against its concrete contract; call sites use its abstraction (argued)"]

from shell import runtime as _runtime
SHELL = [_runtime.contracts_at_run_time]

USES_SUM_LEMMAS = True
