"""C02 - no look-ahead (DESIGN §7 C02)."""
from shell import c02

from shell import replayers
ID = "C02"
LEVEL = "other"
FUNCTIONS = ["Exchange.process_EventNBBO", "body:Transmitter._create_partitions#0"]
SHELL = [c02.env_prefix, c02.xy_prefix, c02.latency_boundary]
LEVEL_TEXT = ("Two-run property. Bounded shell: every cut t of seeded streams, later values perturbed, full output prefix compared "
              "bit-for-bit, through TradingEnv and through the tabular API. Deductive kernel so far: the exchange installs exactly the "
              "quote of the event it is given (C14 contracts); the partition/frame obligations of DESIGN §7 C02 are listed as not yet "
              "decided deductively in the evidence.")
EXPLANATION = LEVEL_TEXT
NOT_DEDUCTIVE = ["second sentence (tabular API): TradingEnvXY.__init__/_make_timesteps are pandas/scikit-learn/market-calendar pipelines (A5): bounded shell only",
                 "non-interference composition over steps (A10): argued from the partition-slot and frame obligations"]

REPLAYERS = [
    ("Transmitter._create_partitions::loop0::body", replayers.partition_slot),
    ("Exchange.process_Event", replayers.exchange_event),
]
