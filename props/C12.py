"""C12 - trade filtering: threshold, liquidations and whole lots (DESIGN §7 C12)."""
from shell import replayers

ID = "C12"
LEVEL = "proof"
FUNCTIONS = ["Trade.__init__", "_Allocation.__init__", "_Allocation.__sub__", "Weights._to_nr_contracts",
             "NrContracts._to_weights", "Rebalancing.make_trades"]
REPLAYERS = [
    ("Trade.__init__::", replayers.trade_init),
("Rebalancing.make_trades::raises::ValueError::sound", replayers.make_trades_raises)]
LEVEL_TEXT = ("Deductive: Rebalancing.make_trades (with the allocation algebra it calls, each under its own contract) is verified "
              "against `a trade for c is emitted iff imbalance != 0 and (|imbalance weight| >= threshold or c is absent from the "
              "target)`, both directions and for every key, with whole-lot quantities = trunc(imbalance) != 0, no cash and no "
              "zero-sized trade, and `raises only for a missing quote`; Trade.__init__'s rejections are proved sound and complete. "
              "A perturbed postcondition (threshold with <= instead of <) must be refuted on every run.")
EXPLANATION = LEVEL_TEXT

from shell import runtime as _runtime
SHELL = [_runtime.contracts_at_run_time]
