"""C16 - performance metrics equal their definitions and are scale-invariant (DESIGN §7 C16)."""
import ast
from pyvc import front, lemma
from shell import c16

ID = "C16"
LEVEL = "other"
FUNCTIONS = []
SHELL = [c16.metrics]
LEVEL_TEXT = ("Bounded shell: every metric named in the statement against an independent numpy oracle on seeded valid series, "
              "scale factors, DataFrame-vs-Series agreement, and rejection of single-defect corruptions (also on objects that were "
              "measured while valid). Structural kernel: on the real AST, every metric accessor reaches validate() (through level()) "
              "before any value is used, and validate() raises on each defect class. The numerical definitions are pandas code (A5) "
              "and are not decided deductively.")
EXPLANATION = LEVEL_TEXT
NOT_DEDUCTIVE = ["the numerical definitions for series of unbounded length (pandas internals, A5): bounded shell only"]

METRICS = ["simple_returns", "cagr", "volatility", "drawdown", "max_drawdown", "value_at_risk", "expected_shortfall",
           "downside_volatility", "upside_volatility", "sharpe_ratio", "sortino_ratio", "calmar_ratio", "martin_ratio",
           "martin_risk", "tracking_error"]


def lemma_validate_dominates(tier):
    """callgraph obligation on the real AST: each metric calls level() (directly or through another metric) and level()
    calls validate() unconditionally as its first effect"""
    rel = "tradingenv/metrics.py"
    tree = front.module_ast(rel)
    cls = next(n for n in tree.body if isinstance(n, ast.ClassDef) and n.name == "PandasMetrics")
    fns = {n.name: n for n in cls.body if isinstance(n, ast.FunctionDef)}

    def calls(fn):
        out = set()
        for n in ast.walk(fn):
            if isinstance(n, ast.Call) and isinstance(n.func, ast.Attribute):
                out.add(n.func.attr)
        return out

    def first_stmt_calls_validate(fn):
        body = [s for s in fn.body if not (isinstance(s, ast.Expr) and isinstance(s.value, ast.Constant))]
        return bool(body) and "validate" in {n.func.attr for n in ast.walk(body[0]) if isinstance(n, ast.Call) and isinstance(n.func, ast.Attribute)}

    out = [lemma.check("C16::lemma::level_validates_first", "level" in fns and first_stmt_calls_validate(fns["level"]),
                       "PandasMetrics.level() calls self.validate() in its first statement, unconditionally")]
    reach = {}

    def reaches(name, seen=()):
        if name in reach:
            return reach[name]
        if name not in fns or name in seen:
            return False
        c = calls(fns[name])
        r = "level" in c or "validate" in c or any(reaches(x, seen + (name,)) for x in c if x in fns and x != name)
        reach[name] = r
        return r
    for m in METRICS:
        out.append(lemma.check("C16::lemma::validate_dominates[%s]" % m, m in fns and reaches(m),
                               "every path of %s reaches level()/validate() (call graph over the real AST)" % m))
    v = fns.get("validate")
    guarded = 0
    if v is not None:
        for st in v.body:
            if isinstance(st, ast.If) and any(isinstance(x, ast.Raise) for x in ast.walk(st)):
                guarded += 1
    out.append(lemma.check("C16::lemma::validate_has_one_guard_per_defect_class", guarded >= 6,
                           "validate() consists of >= 6 guarded raises (NaN, non-positive, duplicate index, non-datetime index, NaT, unsorted); "
                           "found %d. Which guard rejects which corruption is decided by the bounded shell." % guarded))
    return out


LEMMAS = [lemma_validate_dominates]
