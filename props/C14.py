"""C14 - order book semantics (DESIGN §7 C14)."""
import ast
from pyvc import front, lemma

from shell import replayers, c14
ID = "C14"
LEVEL = "proof"
FUNCTIONS = ["LimitOrderBook.mid_price", "LimitOrderBook.acq_price", "LimitOrderBook.liq_price", "LimitOrderBook.update",
             "LimitOrderBook.terminate", "Exchange.__getitem__", "Exchange.process_EventNBBO",
             "Exchange.process_EventContractDiscontinued"]
SHELL = [c14.order_book]
LEVEL_TEXT = ("Deductive: the exchange is a total map from book keys to (bid, ask, sizes, time, is_alive, six ghost history "
              "sequences). process_EventNBBO is proved to install exactly the event's quote in the book of the event's contract "
              "when that book is alive, to leave a dead book unchanged, to append the quote to every history column at the old "
              "length, and to leave every other key untouched (pointwise frame); discontinuation is proved to make the book dead "
              "and price-less with its history preserved; no operation revives a dead book; purchases price at the ask, sales at "
              "the bid, flat at the mid; a key resolves through static hashing (a chain's lead contract). Bounded shell (added): random "
              "interleavings of quotes, discontinuations, queries and clock moves across roll instants (also backwards) over assets, a string "
              "key, two instances of an ES chain and its contracts against a reference book keyed by the contract each key denotes.")
EXPLANATION = LEVEL_TEXT
NOT_DEDUCTIVE = ["the conclusion for arbitrary interleavings is an induction over the event sequence (A10) from the per-event "
                 "postconditions (last-wins + frame + dead-stays-dead)",
                 "string keys: a str and the contract carrying that symbol are the same dict key by AbstractContract.__hash__/__eq__ "
                 "(checked structurally on the AST) - in the model contract identity is key identity (A8)"]


def _src(fn):
    return ast.unparse(front.strip(fn))


def lemma_keys(tier):
    rel = "tradingenv/contracts.py"
    h = front.find(rel, "AbstractContract.__hash__")
    e = front.find(rel, "AbstractContract.__eq__")
    sh = front.find(rel, "AbstractContract.static_hashing")
    fc = front.find(rel, "FutureChain.static_hashing")
    ok_h = [ast.dump(s) for s in front.strip(h).body] == [ast.dump(ast.parse("return hash(self.symbol)").body[0])]
    src_e = _src(e)
    ok_e = "self.symbol == other.symbol" in src_e and "hash(self.symbol) == hash(other)" in src_e
    ok_sh = [ast.dump(s) for s in front.strip(sh).body] == [ast.dump(ast.parse("return self").body[0])]
    ok_fc = [ast.dump(s) for s in front.strip(fc).body] == [ast.dump(ast.parse("return self.lead_contract()").body[0])]
    return [
        lemma.binds("C14::lemma::hash_is_symbol_hash", ok_h, "AbstractContract.__hash__ returns hash(self.symbol)"),
        lemma.binds("C14::lemma::eq_is_symbol_eq", ok_e, "AbstractContract.__eq__ compares symbols (or the symbol's hash with a str key)"),
        lemma.binds("C14::lemma::static_hashing_identity", ok_sh, "non-chain contracts hash statically to themselves"),
        lemma.binds("C14::lemma::chain_hashes_to_lead", ok_fc, "FutureChain.static_hashing returns lead_contract() (C11 contracts)"),
    ]


LEMMAS = [lemma_keys]

REPLAYERS = [
    ("Exchange.process_Event", replayers.exchange_event),
]
