"""C11 - futures chains always trade the live lead contract and roll before expiry (DESIGN §7 C11)."""
from shell import c11

ID = "C11"
LEVEL = "other"
FUNCTIONS = ["Exchange.__getitem__", "_Allocation.__init__", "Rebalancing.make_trades"]
SHELL = [c11.chains]
LEVEL_TEXT = ("Kernel: the exchange addresses the book of a key's static hash (C14), allocations are keyed by static hashes, and make_trades "
              "liquidates every held contract absent from the target regardless of the threshold (C12) - so after a rebalance targeting "
              "the chain every other contract of the chain is flat. Bounded (dense) shell: lead resolution at every last-trading instant "
              "+-1 s of the built-in chains for month offsets 0..2 through lead_contract/static_hashing/symbol, and roll scenarios with "
              "spread, short targets, thresholds and offsets. The bisect-based index arithmetic of _lead_contract_idx is listed as not "
              "yet decided deductively.")
EXPLANATION = LEVEL_TEXT
NOT_DEDUCTIVE = ["FutureChain._lead_contract_idx (bisect_right over the last-trading dates) and FutureChain.__init__ (pandas date_range, A5): bounded shell"]
