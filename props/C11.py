"""C11 - futures chains always trade the live lead contract and roll before expiry (DESIGN §7 C11)."""
from shell import c11

ID = "C11"
LEVEL = "other"
FUNCTIONS = ["FutureChain._lead_contract_idx", "Exchange.__getitem__", "_Allocation.__init__", "Rebalancing.make_trades"]
SHELL = [c11.chains]
LEVEL_TEXT = ("Kernel: the exchange addresses the book of a key's static hash (C14), allocations are keyed by static hashes, and make_trades "
              "liquidates every held contract absent from the target regardless of the threshold (C12) - so after a rebalance targeting "
              "the chain every other contract of the chain is flat. Bounded (dense) shell: lead resolution at every last-trading instant "
              "+-1 s of the built-in chains for month offsets 0..2 through lead_contract/static_hashing/symbol, and roll scenarios with "
              "spread, short targets, thresholds and offsets. _lead_contract_idx (bisect over a strictly increasing list of symbolic length) is "
              "verified: the position is the first last-trading date strictly later than now, plus the offset; it only moves forward.")
EXPLANATION = LEVEL_TEXT
NOT_DEDUCTIVE = ["FutureChain.__init__ (pandas date_range, A5) and the environment-level roll (a step falls between last trading date and expiry): bounded shell",
                 "sortedness of the chain's last-trading dates is taken from C19's complete enumeration"]
import ast, z3
from pyvc import front, lemma


def lemma_resolution(tier):
    """over the contract of _lead_contract_idx (first_strictly_later): the resolved index never moves backwards in time"""
    n, j1, j2 = z3.Ints("n j1 j2")
    t1, t2 = z3.Reals("now1 now2")
    L = z3.Function("ltd", z3.IntSort(), z3.RealSort())
    char = lambda j, t: z3.And(0 <= j, j <= n, z3.Implies(j > 0, L(j - 1) <= t), z3.Implies(j < n, t < L(j)))
    sorted_inst = z3.Implies(z3.And(0 <= j2, j2 < j1 - 1, j1 - 1 < n), L(j2) < L(j1 - 1))      # instance of strict monotonicity (C19)
    out = [lemma.prove("C11::lemma::lead_only_moves_forward", [char(j1, t1), char(j2, t2), t1 <= t2, sorted_inst], j1 <= j2,
                       detail="now1 <= now2 => idx(now1) <= idx(now2), from first_strictly_later at both instants and sortedness")]
    rel = "tradingenv/contracts.py"
    lc = front.strip(front.find(rel, "FutureChain.lead_contract"))
    src = ast.unparse(lc)
    out.append(lemma.binds("C11::lemma::lead_contract_indexes_the_resolved_position",
                           "self._lead_contract_idx(now)" in src and "return self.contracts[idx]" in src and "idx += month" in src,
                           "FutureChain.lead_contract returns contracts[_lead_contract_idx(now) + month]"))
    sh = front.strip(front.find(rel, "FutureChain.static_hashing"))
    out.append(lemma.binds("C11::lemma::chain_hashes_to_lead", [ast.dump(x) for x in sh.body] == [ast.dump(ast.parse("return self.lead_contract()").body[0])],
                           "static_hashing (used by allocations and the exchange) is lead_contract() at the process clock"))
    return out


LEMMAS = [lemma_resolution]
