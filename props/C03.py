"""C03 - rebalancing reaches the requested target allocation (DESIGN §7 C03)."""
import z3
from pyvc import lemma
from shell import replayers

ID = "C03"
LEVEL = "proof"
FUNCTIONS = ["LimitOrderBook.acq_price", "_Allocation.__init__", "_Allocation.__sub__", "Weights._to_nr_contracts",
             "NrContracts._to_weights", "Rebalancing.make_trades", "Broker.transact", "Broker.holdings_weights",
             "Broker.context", "Broker.rebalance", "PortfolioSpace.make_rebalancing_request"]
REPLAYERS = [("Rebalancing.make_trades::raises::ValueError::sound", replayers.make_trades_raises),
             ("Broker.transact::lemma::nlv_delta", replayers.transact_nlv_delta)]
FOLLOW_ON = {"Broker.transact::ensures::nlv_delta_total": "Broker.transact::lemma::nlv_delta"}
LEVEL_TEXT = ("Deductive: Weights._to_nr_contracts is proved to size each target at w x NLV / execution-side quote / multiplier; "
              "make_trades to emit exactly target - holding for every contract (held-but-untargeted contracts get target 0); "
              "Broker.rebalance (loop invariant over the trades, transact by contract) to end with position x multiplier x "
              "execution-side quote = w x NLV measured just before trading, untargeted contracts closed, contract-number targets "
              "reached exactly; the frictionless corollary is a lemma over these contracts. Outside the dust region D3.")
EXPLANATION = LEVEL_TEXT


def lemma_frictionless(tier):
    """bid = ask and no fees: NLV is unchanged by the rebalance's trades, and a second rebalance trades nothing.
    Over the contracts: per-trade NLV delta (transact::nlv_delta) and position = w*NLV/(p*mult) (rebalance::target_reached)."""
    q0, dq, p, m, comm, w, E = z3.Reals("q0 dq p m comm w E")
    liq = lambda q: p                      # bid == ask == mid == p
    q1 = q0 + dq
    delta = -comm + m * (q1 * liq(q1) - q0 * liq(q0) - dq * p)
    out = [lemma.prove("C03::lemma::frictionless_nlv_unchanged", [p > 0, m > 0, comm == 0], delta == 0,
                       detail="with bid=ask and zero commission the NLV delta of any trade (transact's postcondition) is 0")]
    # after the rebalance q' = w*E/(p*m) (target_reached) and NLV' = E: the next imbalance is 0 and the reported weight is w
    qn = w * E / p / m
    out.append(lemma.prove("C03::lemma::second_rebalance_trades_nothing", [p > 0, m > 0, E > 0], w * E / p / m - qn == 0))
    out.append(lemma.prove("C03::lemma::reported_weight_is_target", [p > 0, m > 0, E > 0], qn * p * m / E == w,
                           detail="holdings_weights' ratio (C05) applied to the post-state"))
    return out


LEMMAS = [lemma_frictionless]

from shell import runtime as _runtime
SHELL = [_runtime.contracts_at_run_time]

USES_SUM_LEMMAS = True
