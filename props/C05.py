"""C05 - margin account invariant and NLV decomposition (DESIGN §7 C05)."""
from shell import replayers

ID = "C05"
LEVEL = "proof"
FUNCTIONS = ["LimitOrderBook.liq_price", "LimitOrderBook.acq_price", "LimitOrderBook.mid_price",
             "Broker.__init__", "Broker.marking_to_market", "Broker.transact", "Broker.holdings_values", "Broker.net_liquidation_value",
             "Broker.holdings_weights", "Broker.context"]
REPLAYERS = [
    ("Broker.marking_to_market::", replayers.marking_to_market_post),
    ("Broker.holdings_weights::", replayers.marking_to_market_post),
    ("Broker.net_liquidation_value::ensures", replayers.marking_to_market_post),
    ("Broker.transact::lemma::nlv_delta", replayers.transact_nlv_delta),
    ("Broker.holdings_values::loop0::preserve::filled", replayers.holdings_values_liquidation),
]
FOLLOW_ON = {
    "Broker.transact::ensures::nlv_delta_total": "Broker.transact::lemma::nlv_delta",
    "Broker.net_liquidation_value::": "Broker.holdings_values::loop0::preserve::filled",
}
LEVEL_TEXT = ("Deductive: `margin posted = requirement x multiplier x |position| x liquidation price, excess swept to cash` is the "
              "pointwise postcondition of marking_to_market (loop invariant over all held contracts) and of transact for the traded "
              "contract; the account invariant WF(B) (no margin without requirement, zero when flat, never negative) is preserved "
              "by every method; net_liquidation_value is proved equal to cash + margins + liquidation value of fully-paid positions "
              "with nothing pending, and holdings_weights / context report position x liquidation price x multiplier / NLV.")
EXPLANATION = LEVEL_TEXT
NOT_DEDUCTIVE = ["induction over histories (A10): WF(B) is proved preserved per operation"]

from shell import runtime as _runtime
SHELL = [_runtime.contracts_at_run_time]

USES_SUM_LEMMAS = True
