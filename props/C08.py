"""C08 - decision-to-execution timing: FIFO delay and latency pricing (DESIGN §7 C08)."""
from shell import replayers

ID = "C08"
LEVEL = "other"
FUNCTIONS = ["PortfolioSpace.null_action", "PortfolioSpace.make_rebalancing_request"]
REPLAYERS = [("PortfolioSpace.null_action::ensures::in_space", replayers.null_action_in_space)]
FOLLOW_ON = {"PortfolioSpace.null_action::ensures::is_action_zero": "PortfolioSpace.null_action::ensures::in_space"}
LEVEL_TEXT = ("Deductive kernel + bounded shell (reported separately).")
EXPLANATION = LEVEL_TEXT
