"""C08 - decision-to-execution timing: FIFO delay and latency pricing (DESIGN §7 C08)."""
from shell import replayers

ID = "C08"
LEVEL = "other"
FUNCTIONS = ["PortfolioSpace.null_action", "PortfolioSpace.make_rebalancing_request", "TradingEnv.step", "body:Transmitter._create_partitions#0", "TradingEnv._process_latent_events", "TradingEnv._process_nonlatent_events", "TradingEnv.reset"]
from shell import c08
SHELL = [c08.timing]
REPLAYERS = [
    ("Transmitter._create_partitions::loop0::body", replayers.partition_slot),
("PortfolioSpace.null_action::ensures::in_space", replayers.null_action_in_space)]
FOLLOW_ON = {"PortfolioSpace.null_action::ensures::is_action_zero": "PortfolioSpace.null_action::ensures::in_space"}
LEVEL_TEXT = ("Deductive kernel: TradingEnv.step is executed symbolically with a delay line of symbolic length d: the action handed to "
              "make_rebalancing_request is the one at the back of the queue (the submitted one when d = 0), the queue is shifted by exactly "
              "one with the submitted action at the front and no eviction (len = d, maxlen = d+1 invariant), latent events precede and "
              "non-latent events follow the execution; null_action is proved to be in the space (D10 fixed). Bounded shell: FIFO with "
              "distinct per-step actions for d = 0..3, quotes placed at and around the latency boundary, malformed actions. The "
              "partition-slot obligation of _create_partitions is reported as not yet decided deductively.")
EXPLANATION = LEVEL_TEXT
NOT_DEDUCTIVE = ["latent iff stamped within `latency` of the previous timestep (Transmitter._create_partitions loop): bounded shell (C04/C08)",
                 "reset establishes the delay line of d null actions: bounded shell"]
EXTRA_ASSUMPTIONS = [
    "TradingEnv.reset is verified to establish the environment invariant that TradingEnv.step assumes at entry and re-establishes at exit, modulo ASSUMED summaries (IState.reset, Transmitter._reset, Transmitter._next, IState.__call__) and TRUSTED small models (sorted() as a permutation ordered by IEvent.__lt__ - itself executed -, Cash() as one fixed cash key with the precondition that the space's base currency is that key, defaultdict(LimitOrderBook) as an empty book table whose rows read NaN : NaN, alive, AbstractContract.verify/Rate.verify, np.inf as an unconstrained constant); the configuration clauses (fees >= 0, contract specs in the property's regime, reward parameters, 0 within the box bounds) are preconditions of reset",
    "ASSUMED contracts: IState.__call__, Transmitter._next; input assumption of TradingEnv._process_*_events: delivered quotes stay within the property's quantifier (0 < bid <= ask, cash 1/1, rate quoted)"]
