"""C10 - episodes are reproducible and environments are isolated (DESIGN §7 C10)."""
from shell import c10

ID = "C10"
LEVEL = "other"
FUNCTIONS = ["TradingEnv.notify", "TradingEnv.step"]
SHELL = [c10.isolation]
LEVEL_TEXT = ("Kernel (frames): the only location outside the environment that its reset/step path writes is the process-wide "
              "AbstractContract.now (write log of TradingEnv.step/notify vs their `modifies`), and step writes this environment's own time "
              "to it before anything that may resolve a futures chain (D7 fixed); notify leaves both clocks at the dispatched event's time. "
              "Bounded shell: bit-identical traces after reset following completed/abandoned/errored episodes and on a fresh identical "
              "environment, and under round-robin/blocked/random interleavings of two environments (spot with fees/delay/feature "
              "history, ES chains at different clocks, with and without latency). D12 (shared default IState) is a recorded finding.")
EXPLANATION = LEVEL_TEXT
NOT_DEDUCTIVE = ["reinitialisation of every field by reset and the absence of ambient nondeterminism (DESIGN section 7 C10 iii/iv): the generic "
                 "frame analysis was not built; bounded shell only", "bit identity of floating-point results (A1): shell only"]
EXTRA_ASSUMPTIONS = ["ASSUMED contracts: TradingEnv._process_*_events, IState.__call__, TrackRecord._checkpoint/__getitem__"]
