"""C10 - episodes are reproducible and environments are isolated (DESIGN §7 C10)."""
from shell import c10

ID = "C10"
LEVEL = "other"
FUNCTIONS = ["TradingEnv.notify", "TradingEnv.step", "TradingEnv.reset"]
SHELL = [c10.isolation]
LEVEL_TEXT = ("Kernel (frames): the only location outside the environment that its reset/step path writes is the process-wide "
              "AbstractContract.now (write log of TradingEnv.step/notify vs their `modifies`), and step writes this environment's own time "
              "to it before anything that may resolve a futures chain (D7 fixed); notify leaves both clocks at the dispatched event's time. "
              "Bounded shell: bit-identical traces after reset following completed/abandoned/errored episodes and on a fresh identical "
              "environment, and under round-robin/blocked/random interleavings of two environments (spot with fees/delay/feature "
              "history, ES chains at different clocks, with and without latency). D12 (shared default IState) is a recorded finding.")
EXPLANATION = LEVEL_TEXT
NOT_DEDUCTIVE = ["reinitialisation of every field by reset and the absence of ambient nondeterminism (DESIGN section 7 C10 iii/iv): the generic "
                 "frame analysis was not built; bounded shell only", "bit identity of floating-point results (A1): shell only"]
EXTRA_ASSUMPTIONS = [
    "TradingEnv.reset is verified to establish the environment invariant that TradingEnv.step assumes at entry and re-establishes at exit, modulo ASSUMED summaries (IState.reset, Transmitter._reset, Transmitter._next, IState.__call__) and TRUSTED small models (sorted() as a permutation ordered by IEvent.__lt__ - itself executed -, Cash() as one fixed cash key with the precondition that the space's base currency is that key, defaultdict(LimitOrderBook) as an empty book table whose rows read NaN : NaN, alive, AbstractContract.verify/Rate.verify, np.inf as an unconstrained constant); the configuration clauses (fees >= 0, contract specs in the property's regime, reward parameters, 0 within the box bounds) are preconditions of reset",
    "ASSUMED contracts: IState.__call__, Transmitter._next"]

import ast
from pyvc import front, lemma

STEP_PATH = ["step", "notify", "_process_latent_events", "_process_nonlatent_events", "now", "_is_new_date"]
NONDET = ("random.", "np.random.", "numpy.random.", "datetime.now", "datetime.utcnow", "time.time", "uuid.", "os.urandom")


def _self_writes(fn):
    """attributes of self that a function assigns, augments, or mutates through a method call / subscript store"""
    out = set()
    for n in ast.walk(fn):
        tgts = []
        if isinstance(n, ast.Assign):
            tgts = n.targets
        elif isinstance(n, (ast.AugAssign, ast.AnnAssign)):
            tgts = [n.target]
        for t in tgts:
            for x in (t.elts if isinstance(t, (ast.Tuple, ast.List)) else [t]):
                while isinstance(x, ast.Subscript):
                    x = x.value                      # self.d[k] = v mutates self.d
                if isinstance(x, ast.Attribute) and isinstance(x.value, ast.Name) and x.value.id == "self":
                    out.add(x.attr)
        if isinstance(n, ast.Call) and isinstance(n.func, ast.Attribute) and isinstance(n.func.value, ast.Attribute) \
                and isinstance(n.func.value.value, ast.Name) and n.func.value.value.id == "self" \
                and n.func.attr in ("append", "appendleft", "pop", "popleft", "extend", "clear", "update", "add", "remove", "insert"):
            out.add(n.func.value.attr)
    return out


def lemma_frames(tier):
    rel = "tradingenv/env.py"
    fns = {m: front.strip(front.find(rel, "TradingEnv." + m)) for m in STEP_PATH + ["reset"]}
    written = set()
    for m in STEP_PATH:
        written |= _self_writes(fns[m])
    # unconditional (top-level) assignments of reset
    top = set()
    for st in fns["reset"].body:
        if isinstance(st, ast.Assign):
            for t in st.targets:
                for x in ([t] if not isinstance(t, ast.Tuple) else t.elts):
                    if isinstance(x, ast.Attribute) and isinstance(x.value, ast.Name) and x.value.id == "self":
                        top.add(x.attr)
    exceptions = {"_visits"}          # a visit counter across episodes (documented; read by visits() only)
    missing = sorted(written - top - exceptions)
    out = [lemma.check("C10::lemma::reset_reinitialises_every_field_the_step_path_writes", not missing,
                       "fields written on the step path: %s; assigned unconditionally by reset: %s; not re-initialised: %s"
                       % (sorted(written), sorted(top & written), missing))]
    found = []
    for relp, quals in ((rel, ["TradingEnv." + m for m in STEP_PATH + ["reset"]]),
                        ("tradingenv/transmitter.py", ["Transmitter._reset", "Transmitter._next", "Transmitter._now"]),
                        ("tradingenv/broker/broker.py", ["Broker.rebalance", "Broker.transact", "Broker.marking_to_market", "Broker.accrued_interest",
                                                         "Broker.net_liquidation_value", "Broker.holdings_values", "Broker.context"]),
                        ("tradingenv/broker/rebalancing.py", ["Rebalancing.__init__", "Rebalancing.make_trades"]),
                        ("tradingenv/exchange.py", ["Exchange.process_EventNBBO", "Exchange.process_EventContractDiscontinued", "Exchange.__getitem__"])):
        for q in quals:
            fn = front.strip(front.find(relp, q))
            for n in ast.walk(fn):
                if isinstance(n, ast.Call):
                    try:
                        dotted = ast.unparse(n.func)
                    except Exception:
                        continue
                    for pat in NONDET:
                        if dotted.startswith(pat) or dotted == pat.rstrip("."):
                            found.append("%s uses %s" % (q, pat.rstrip(".")))
    allowed = {"Transmitter._reset uses np.random", "Rebalancing.__init__ uses datetime.now"}
    extra = sorted(set(found) - allowed)
    out.append(lemma.check("C10::lemma::no_ambient_nondeterminism_on_the_reset_step_path", not extra,
                           "nondeterministic calls found: %s; allowed: the episode window draw in Transmitter._reset (an input of the property) and "
                           "`time or datetime.now()` in Rebalancing.__init__ (never reached with a clock); unexpected: %s" % (sorted(set(found)), extra)))
    return out


LEMMAS = [lemma_frames]
