"""C10 - episodes are reproducible and environments are isolated (DESIGN §7 C10)."""
from shell import c10

ID = "C10"
LEVEL = "other"
FUNCTIONS = []
SHELL = [c10.isolation]
LEVEL_TEXT = ("bounded shell + frame obligations (reported separately)")
EXPLANATION = LEVEL_TEXT
