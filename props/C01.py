"""C01 - self-financing trading (DESIGN §7 C01)."""
from shell import replayers

ID = "C01"
LEVEL = "proof"
FUNCTIONS = [
    "LimitOrderBook.mid_price", "LimitOrderBook.acq_price", "LimitOrderBook.liq_price",
    "BrokerFees.commissions", "Trade.__init__",
    "Broker.__init__", "Broker.marking_to_market", "Broker.transact", "Broker.holdings_values", "Broker.net_liquidation_value",
]
REPLAYERS = [
    ("Trade.__init__::", replayers.trade_init),

    ("Broker.marking_to_market::", replayers.marking_to_market_post),
    ("Broker.holdings_weights::", replayers.marking_to_market_post),
    ("Broker.net_liquidation_value::ensures", replayers.marking_to_market_post),
    ("Broker.transact::lemma::nlv_delta", replayers.transact_nlv_delta),
    ("Broker.holdings_values::loop0::preserve::filled", replayers.holdings_values_liquidation),
]
# clauses that rest on a lemma: when the lemma fails on a path they fail with it and are reported under it
FOLLOW_ON = {
    "Broker.transact::ensures::nlv_delta_total": "Broker.transact::lemma::nlv_delta",
    "Broker.net_liquidation_value::": "Broker.holdings_values::loop0::preserve::filled",
}
EXPLANATION = ("Every obligation is an SMT query generated from the AST of the function in the current working tree; "
               "the NLV identity of one trade is the postcondition of Broker.transact, stated with the property's own formula "
               "over the spec function equity(B) = SUM_c margins_c + pend(c) + cr_c*mult_c*q_c*liq(c,q_c); "
               "valuation (net_liquidation_value) is proved equal to equity(B); marking-to-market preserves equity(B).")
NOT_DEDUCTIVE = ["induction over the history of operations (A10): invariant WF(B) and the ledger identity are proved "
                 "established/preserved per operation; the induction itself is argued"]
LEVEL_TEXT = ("Deductive: every function between the property and the code (order-book price accessors, Trade, fees, "
              "marking-to-market, transact, holdings_values, net_liquidation_value) carries a contract; the one-trade NLV "
              "identity is the postcondition of Broker.transact over all real inputs satisfying the property's quantifier, "
              "discharged per path by z3 (cvc5/z3-4.8 fallback). Proved outside the recorded dust region D3 (known finding).")

from shell import runtime as _runtime
SHELL = [_runtime.contracts_at_run_time]

USES_SUM_LEMMAS = True
