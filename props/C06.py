"""C06 - interest on cash (DESIGN §7 C06)."""
import ast, z3
from pyvc import front, lemma
from pyvc.models import pow_

ID = "C06"
LEVEL = "proof"
FUNCTIONS = ["LimitOrderBook.mid_price", "Broker.accrued_interest"]
from shell import replayers
REPLAYERS = [
    ("Broker.accrued_interest::ensures::formula", replayers.accrued_interest_formula),
    ("Broker.accrued_interest::frame", replayers.accrued_interest_formula),
    ("Broker.accrued_interest::ensures::never_charges_positive", replayers.accrued_interest_formula),
    ("Broker.accrued_interest::lemma", replayers.accrued_interest_formula),
("Broker.accrued_interest::ensures::query_changes_nothing", replayers.accrued_interest_query)]
LEVEL_TEXT = ("Deductive: Broker.accrued_interest is verified against the property's own formula (compounded (rate -/+ markup), "
              "365-day year, never charging positive balances), its frame (only cash and the accrual clock move: posted margin earns "
              "nothing), rejection of earlier times and same-instant idempotence, on every path and for all reals; `**` is an "
              "uninterpreted function with instantiated real-exponent axioms; split-invariance is a lemma over the contract. "
              "The query-starts-the-clock deviation D11 is a recorded known finding (pinned by a repository test).")
EXPLANATION = LEVEL_TEXT
NOT_DEDUCTIVE = ["n-way split invariance: the 2-way lemma is proved by SMT, the induction on the number of cuts is argued (A10)"]


def lemma_seconds_in_year(tier):
    node = front.module_constant("tradingenv/broker/broker.py", "SECONDS_IN_YEAR")
    try:
        val = eval(compile(ast.Expression(node), "<const>", "eval"), {"__builtins__": {}})
    except Exception:
        val = None
    return [lemma.check("C06::lemma::year_is_365_days", val == 365 * 24 * 3600,
                        "SECONDS_IN_YEAR (module constant, read from the AST) = %r" % (val,))]


def lemma_split_invariance(tier):
    """two accruals at t1 < t2 under a constant rate give the balance of one accrual at t2 (uses only the contract)"""
    from contracts.broker import interest_formula
    a, r, m, y1, y2 = z3.Reals("a r m y1 y2")
    bp, bn = 1 + r - m, 1 + r + m
    P = lambda b, y: pow_(b, y)
    hyps = [m >= 0, bp > 0, y1 >= 0, y2 >= 0]
    # AXIOM real-exponent laws (A3) instantiated at the sites of the lemma
    for b in (bp, bn):
        hyps += [P(b, y1 + y2) == P(b, y1) * P(b, y2)]
        for y in (y1, y2, y1 + y2):
            hyps += [P(b, y) > 0, z3.Implies(z3.And(b >= 1, y >= 0), P(b, y) >= 1), z3.Implies(z3.And(b <= 1, y >= 0), P(b, y) <= 1)]
    step = lambda x, y: x + interest_formula(x, r, m, y)
    out = []
    for nm, case in (("idle_cash", a > 0), ("borrowed_cash", a < 0), ("zero", a == 0)):
        out.append(lemma.prove("C06::lemma::split_invariance[%s]" % nm, hyps + [case], step(step(a, y1), y2) == step(a, y1 + y2),
                               detail="balance after two accruals == balance after one (constant rate)"))
    # vacuity control: with the product law replaced by a sum law the lemma must fail
    bad = [h for h in hyps if not (z3.is_eq(h) and h.arg(0).decl().name() == "pow" and z3.is_mul(h.arg(1)))]
    ctl = lemma.prove("C06::control::split_without_product_law", bad + [a < 0, y1 > 0, y2 > 0, bn > 1],
                      step(step(a, y1), y2) == step(a, y1 + y2))
    ctl["kind"] = "control"
    out.append(ctl)
    return out


LEMMAS = [lemma_seconds_in_year, lemma_split_invariance]

from shell import runtime as _runtime
SHELL = [_runtime.contracts_at_run_time, _runtime.aware_intervals]
