"""C19 - futures calendars (DESIGN §7 C19)."""
from shell import c19

ID = "C19"
LEVEL = "other"
FUNCTIONS = []
SHELL = [c19.calendars]
LEVEL_TEXT = ("Complete enumeration of the statement's finite domain (every built-in class x year 1970..2099 x month; chains over a grid "
              "of spans) with run-time contracts on the real Future/FutureChain objects against an independent weekday oracle; the SMT "
              "kernel of the expiry arithmetic is reported separately in the evidence.")
EXPLANATION = LEVEL_TEXT

import ast, z3
from pyvc import front, lemma


def lemma_vx_arithmetic(tier):
    """SMT kernel, unbounded in the year: the day arithmetic of VX._get_expiry_date, for every weekday w of the 1st of the following
    month and every month length L"""
    w, L, d = z3.Ints("w L d")
    hyp = [0 <= w, w <= 6, 28 <= L, L <= 31, d == 21 - (w + 2) % 7]
    out = [
        lemma.prove("C19::lemma::vx_plus_32_days_lands_in_next_month", hyp, z3.And(1 + 32 - L >= 2, 1 + 32 - L <= 5)),
        lemma.prove("C19::lemma::vx_day_is_third_friday", hyp, z3.And(15 <= d, d <= 21, (w + d - 1) % 7 == 4),
                    detail="weekday Monday=0: day d of a month whose 1st has weekday w has weekday (w+d-1)%7; Friday=4; the third Friday lies in 15..21"),
        lemma.prove("C19::lemma::vx_30_days_before_a_friday_is_a_wednesday", [], (4 - 30) % 7 == 2),
    ]
    rel = "tradingenv/contracts.py"
    fn = front.strip(front.find(rel, "VX._get_expiry_date"))
    src = ast.unparse(fn)
    ok = all(x in src for x in ("timedelta(days=32)", "21 - (calendar.weekday(next_month.year, next_month.month, 1) + 2) % 7", "timedelta(days=30)"))
    out.append(lemma.binds("C19::lemma::vx_code_uses_this_arithmetic", ok, "VX._get_expiry_date: +32 days, 21 - (weekday(1st)+2)%7, -30 days (read from the AST)"))
    for cls, idx, nm in (("ES", 2, "third"), ("NK", 1, "second")):
        f = front.strip(front.find(rel, cls + "._get_expiry_date"))
        s_ = ast.unparse(f)
        out.append(lemma.binds("C19::lemma::%s_picks_the_%s_friday" % (cls.lower(), nm),
                               "dates['Friday'][%d]" % idx in s_ and "range(1, nr_days + 1)" in s_ and "strftime('%A')" in s_,
                               "%s._get_expiry_date collects the month's days by weekday name and returns Fridays[%d]" % (cls, idx)))
    k, first = z3.Ints("k first")
    out.append(lemma.prove("C19::lemma::month_has_at_least_four_fridays", [1 <= first, first <= 7, 1 <= k, k <= 4], first + 7 * (k - 1) <= 28,
                           detail="the k-th Friday (k <= 4) exists in every month (>= 28 days): index [2] / [1] is always in range"))
    return out


LEMMAS = [lemma_vx_arithmetic]
