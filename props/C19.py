"""C19 - futures calendars (DESIGN §7 C19)."""
from shell import c19

ID = "C19"
LEVEL = "other"
FUNCTIONS = []
SHELL = [c19.calendars]
LEVEL_TEXT = ("Complete enumeration of the statement's finite domain (every built-in class x year 1970..2099 x month; chains over a grid "
              "of spans) with run-time contracts on the real Future/FutureChain objects against an independent weekday oracle; the SMT "
              "kernel of the expiry arithmetic is reported separately in the evidence.")
EXPLANATION = LEVEL_TEXT
