"""C04 - event delivery is complete, exactly-once, on time and in timestamp order (DESIGN §7 C04)."""
from shell import c04

from shell import replayers
ID = "C04"
LEVEL = "other"
FUNCTIONS = ["body:Transmitter._create_partitions#0", "body:IEvent.notify#0", "TradingEnv.notify", "TradingEnv._process_latent_events", "TradingEnv._process_nonlatent_events", "Transmitter._next"]
SHELL = [c04.delivery]
LEVEL_TEXT = ("Deductive kernel: (i) the partition slot of an arbitrary event (body of the loop of Transmitter._create_partitions over a "
              "strictly increasing grid of symbolic length): stored exactly once, under the first timestep at or after its stamp, latent iff "
              "stamp - previous timestep <= latency, never stored after the last timestep; (ii) IEvent.notify's loop body: the callback of an "
              "observer is invoked exactly once iff it subscribes to the event's type; (iii) TradingEnv.notify: both clocks equal the event's "
              "time when it is dispatched, a new-date notification stamped with the previous event's time precedes it iff the date changed "
              "(D4 fixed); (iv) TradingEnv._process_latent_events/_process_nonlatent_events (loops over a batch of symbolic length, index invariant): "
              "every buffered event is notified exactly once in list order, nothing with a stamp before the clock is notified, the clock ends at the last stamp, "
              "the latent buffer is emptied, _done is only ever set (on StopIteration); (v) Transmitter._next outside the warm-up step: one grid point per call, "
              "strictly in order, returning exactly the two lists stored under it, StopIteration iff exhausted. Bounded shell: recording observer over enumerated grids/placements/latencies/folds/warm-up/markov and two "
              "consecutive episodes (completeness, exactly-once, order, on-time, latency side, stamps). D13 is a recorded finding.")
EXPLANATION = LEVEL_TEXT
NOT_DEDUCTIVE = ["whole-episode conclusions (completeness across the replay window, repeated episodes on one environment, global order of the log): bounded shell; "
                 "Transmitter._reset/_next (numpy masks, itertools) are not verified deductively: Transmitter._next at call sites is an ASSUMED summary (raises StopIteration or returns the two batches of the next timestep, each in stamp order and after the clock); its steady-state branch is verified, its warm-up branch (first step, dict items + itertools.chain) and the sort inside _create_partitions are covered by the bounded shell only"]

REPLAYERS = [
    ("Transmitter._create_partitions::loop0::body", replayers.partition_slot),
]
