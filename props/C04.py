"""C04 - event delivery is complete, exactly-once, on time and in timestamp order (DESIGN §7 C04)."""
from shell import c04

ID = "C04"
LEVEL = "other"
FUNCTIONS = []
SHELL = [c04.delivery]
LEVEL_TEXT = ("bounded shell only so far")
EXPLANATION = LEVEL_TEXT
