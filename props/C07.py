"""C07 - track record and rewards are a faithful, replayable account of the episode (DESIGN §7 C07)."""
from shell import c07

ID = "C07"
LEVEL = "other"
FUNCTIONS = ["TrackRecord._checkpoint", "TrackRecord.__getitem__", "Broker.context", "Broker.rebalance", "RewardSimpleReturn.calculate", "RewardPnL.calculate",
             "RewardLogReturn.calculate", "LogReturn.calculate", "TradingEnv.step", "TradingEnv.reset"]
SHELL = [c07.records]
LEVEL_TEXT = ("Deductive kernel: Broker.rebalance's postconditions (recorded pre/post NLV are equity(B) before/after the trades; the "
              "recorded trades' ledger reproduces post - pre; exactly one checkpoint per executed decision), the four reward formulas, "
              "and step's effect order; bounded shell: an independent ledger replays recorded trades and interest over seeded episodes "
              "(TrackRecord._checkpoint and __getitem__ are verified against concrete contracts over a list of symbolic length; the pandas accessors are covered only by the shell).")
EXPLANATION = LEVEL_TEXT
NOT_DEDUCTIVE = ["the pandas accessors of TrackRecord: bounded shell only (TrackRecord._checkpoint/__getitem__ are verified against concrete contracts; their abstraction at call sites is argued)",
                 "strictly increasing record stamps on bar-shaped data (lemma stamps_increasing): argued from the clock contract; observed by the shell"]
EXTRA_ASSUMPTIONS = [
    "TradingEnv.reset is verified to establish the environment invariant that TradingEnv.step assumes at entry and re-establishes at exit, modulo ASSUMED summaries (IState.reset, Transmitter._reset, Transmitter._next, IState.__call__) and TRUSTED small models (sorted() as a permutation ordered by IEvent.__lt__ - itself executed -, Cash() as one fixed cash key with the precondition that the space's base currency is that key, defaultdict(LimitOrderBook) as an empty book table whose rows read NaN : NaN, alive, AbstractContract.verify/Rate.verify, np.inf as an unconstrained constant); the configuration clauses (fees >= 0, contract specs in the property's regime, reward parameters, 0 within the box bounds) are preconditions of reset",
    "ASSUMED contracts: IState.__call__, Transmitter._next; input assumption of TradingEnv._process_*_events: delivered quotes stay within the property's quantifier (0 < bid <= ask, cash 1/1, rate quoted)"]

USES_SUM_LEMMAS = True
