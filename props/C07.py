"""C07 - track record and rewards are a faithful, replayable account of the episode (DESIGN §7 C07)."""
from shell import c07

ID = "C07"
LEVEL = "other"
FUNCTIONS = ["Broker.context", "Broker.rebalance", "RewardSimpleReturn.calculate", "RewardPnL.calculate",
             "RewardLogReturn.calculate", "LogReturn.calculate", "TradingEnv.step"]
SHELL = [c07.records]
LEVEL_TEXT = ("Deductive kernel: Broker.rebalance's postconditions (recorded pre/post NLV are equity(B) before/after the trades; the "
              "recorded trades' ledger reproduces post - pre; exactly one checkpoint per executed decision), the four reward formulas, "
              "and step's effect order; bounded shell: an independent ledger replays recorded trades and interest over seeded episodes "
              "(TrackRecord's python/pandas bookkeeping - _checkpoint, __getitem__, accessors - is covered only there).")
EXPLANATION = LEVEL_TEXT
NOT_DEDUCTIVE = ["TrackRecord._checkpoint/__getitem__ (ASSUMED contracts) and the pandas accessors: bounded shell only",
                 "strictly increasing record stamps on bar-shaped data (lemma stamps_increasing): argued from the clock contract; observed by the shell"]
EXTRA_ASSUMPTIONS = ["ASSUMED contracts: TrackRecord._checkpoint, TrackRecord.__getitem__, TradingEnv._process_*_events, notify, IState.__call__"]

USES_SUM_LEMMAS = True
