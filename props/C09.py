"""C09 - insolvency safety (DESIGN §7 C09)."""
from shell import replayers, c09

ID = "C09"
LEVEL = "proof"
FUNCTIONS = ["Broker.net_liquidation_value", "Broker.context", "Broker.rebalance", "RewardSimpleReturn.calculate",
             "RewardPnL.calculate", "RewardLogReturn.calculate", "LogReturn.calculate", "TradingEnv.step", "TradingEnv.reset"]
SHELL = [c09.insolvency]
REPLAYERS = [("TradingEnv.step::raises::EndOfEpisodeError::sound", replayers.step_insolvent)]
LEVEL_TEXT = ("Deductive: net_liquidation_value raises EndOfEpisodeError iff asked to and equity <= 0 (returns the non-positive "
              "value otherwise); Broker.rebalance's insolvent exit is proved to precede every transact and the checkpoint "
              "(positions, track record unchanged); TradingEnv.step is executed symbolically against the callee contracts: it "
              "refuses iff the episode had ended (state unchanged), never clears the done flag, reports done when the decision "
              "arrives at an insolvent account, and EndOfEpisodeError may not escape otherwise - the escape through "
              "_reward.calculate is the recorded finding D6 (identified by call site; any other escape is reported). Bounded shell (added): leveraged accounts driven "
              "insolvent on the real code (crash between bars / inside the latency window with and without recovery / short squeeze) x 3 rewards "
              "x delays {0,1}: an insolvent decision executes nothing and latches done, later steps are refused, valuation raises iff NLV <= 0.")
EXPLANATION = LEVEL_TEXT
EXTRA_ASSUMPTIONS = [
    "TradingEnv.reset is verified to establish the environment invariant that TradingEnv.step assumes at entry and re-establishes at exit, modulo ASSUMED summaries (IState.reset, Transmitter._reset, Transmitter._next, IState.__call__) and TRUSTED small models (sorted() as a permutation ordered by IEvent.__lt__ - itself executed -, Cash() as one fixed cash key with the precondition that the space's base currency is that key, defaultdict(LimitOrderBook) as an empty book table whose rows read NaN : NaN, alive, AbstractContract.verify/Rate.verify, np.inf as an unconstrained constant); the configuration clauses (fees >= 0, contract specs in the property's regime, reward parameters, 0 within the box bounds) are preconditions of reset",
    "ASSUMED contracts (not verified against their bodies here): IState.__call__ (raises nothing), Transmitter._next (StopIteration or two ordered batches); input assumption of TradingEnv._process_*_events (verified otherwise): delivered quotes stay within the property's quantifier",
]

USES_SUM_LEMMAS = True
