"""C19: complete enumeration of the finite input domain (every built-in class x year 1970..2099 x month), with run-time
contracts evaluated on the real objects and an independent weekday oracle (datetime.date.weekday)."""
from .common import *
from datetime import timedelta
import datetime as _dt
import calendar as _cal
from tradingenv import contracts as C

CLASSES = ["ES", "NK", "VX", "ZQ", "ZT", "ZF", "ZN", "ZB"]
MONTH_CODES = {1: "F", 2: "G", 3: "H", 4: "J", 5: "K", 6: "M", 7: "N", 8: "Q", 9: "U", 10: "V", 11: "X", 12: "Z"}


def nth_friday(year, month, n):
    d = _dt.date(year, month, 1)
    off = (4 - d.weekday()) % 7          # first Friday
    return _dt.date(year, month, 1 + off + 7 * (n - 1))


def last_weekday(year, month):
    d = _dt.date(year, month, _cal.monthrange(year, month)[1])
    while d.weekday() >= 5:
        d -= _dt.timedelta(days=1)
    return d


def expected_expiry(name, year, month):
    if name == "ES":
        return nth_friday(year, month, 3)
    if name == "NK":
        return nth_friday(year, month, 2)
    if name == "VX":
        ny, nm = (year + 1, 1) if month == 12 else (year, month + 1)
        return nth_friday(ny, nm, 3) - _dt.timedelta(days=30)
    return last_weekday(year, month)


def check_contract(name, year, month):
    cls = getattr(C, name)
    f = cls(year, month)
    exp = expected_expiry(name, year, month)
    out = []
    e = f.expiry.date() if hasattr(f.expiry, "date") else f.expiry
    if e != exp:
        out.append(("expiry_rule", {"class": name, "year": year, "month": month, "expiry": str(f.expiry), "expected": str(exp)}))
    if name == "VX" and e.weekday() != 2:
        out.append(("vx_wednesday", {"class": name, "year": year, "month": month, "expiry": str(f.expiry)}))
    if not (f.last_trading_date < f.expiry):
        out.append(("cutoff_before_expiry", {"class": name, "year": year, "month": month, "ltd": str(f.last_trading_date), "expiry": str(f.expiry)}))
    sym = "%s%s%02d" % (name, MONTH_CODES[e.month], e.year % 100)
    if f.symbol != sym:
        out.append(("symbol", {"class": name, "year": year, "month": month, "symbol": f.symbol, "expected": sym}))
    evs = f.make_events()
    if not (len(evs) == 1 and evs[0].time == f.expiry and evs[0].contract is f):
        out.append(("one_discontinuation_at_expiry", {"class": name, "year": year, "month": month, "events": [str(x.time) for x in evs]}))
    return out


def check_chain(name, start, end):
    cls = getattr(C, name)
    out = []
    try:
        ch = C.FutureChain(cls, start, end)
    except Exception as ex:
        return [("chain_constructible", {"class": name, "start": start, "end": end, "error": "%s: %s" % (type(ex).__name__, ex)})], 0
    cs = ch.contracts
    for a, b in zip(cs, cs[1:]):
        if not (a.expiry < b.expiry and a.last_trading_date < b.last_trading_date):
            out.append(("chain_strictly_increasing", {"class": name, "start": start, "end": end, "pair": [a.symbol, b.symbol]}))
            break
    # unique symbols within a century
    seen = {}
    for c in cs:
        key = c.symbol
        if key in seen and abs(c.expiry.year - seen[key]) < 100:
            out.append(("unique_symbols_within_a_century", {"class": name, "symbol": key}))
            break
        seen[key] = c.expiry.year
    want = sorted((c.expiry, c.symbol) for c in cs)
    # the events a chain schedules do not depend on where the process-wide simulation clock happens to stand (an earlier episode
    # or another environment may have advanced it): before the chain, inside it, after it
    saved = C.AbstractContract.now
    try:
        for clock in (saved, cs[0].expiry - timedelta(days=400), cs[len(cs) // 2].expiry + timedelta(days=1), cs[-1].expiry + timedelta(days=400)):
            C.AbstractContract.now = clock
            evs = ch.make_events()
            stamps = sorted((e.time, e.contract.symbol) for e in evs)
            if stamps != want or len(evs) != len(cs):
                out.append(("one_discontinuation_per_contract", {"class": name, "start": start, "end": end, "events": len(evs), "contracts": len(cs),
                                                                  "process_clock": str(clock)}))
                break
    finally:
        C.AbstractContract.now = saved
    if ch._last_trading_dates != [c.last_trading_date for c in cs]:
        out.append(("ltd_index_matches", {"class": name, "start": start, "end": end}))
    return out, len(cs)


SPANS = [("1970-01", "2099-12"), ("1970-01", "2070-03"), ("1990-01", "2099-12"), ("2019-03", "2020-12"), ("2000-01", "2000-12"),
         ("1999-11", "2001-02"), ("2030-06", "2031-06")]


def calendars(tier, seed):
    acc = Acc("complete enumeration: 8 built-in classes x years 1970..2099 x months 1..12 (every Future that can be constructed) + "
              "chains over %d spans per class; oracle = datetime.date.weekday arithmetic, independent of the code's strftime/"
              "calendar/pandas route; non-trivial = distinct (class, year, month) / (class, span)" % len(SPANS), "none: the whole domain")
    for name in CLASSES:
        for year in range(1970, 2100):
            for month in range(1, 13):
                bad = check_contract(name, year, month)
                acc.case((name, year, month), sample={"class": name, "year": year, "month": month,
                                                      "expiry": str(expected_expiry(name, year, month))} if (year, month) == (2019, 6) else None)
                for nm, d in bad:
                    acc.fail("C19::shell::" + nm, "c19_calendar", {"what": "contract", "class": name, "year": year, "month": month}, d)
    # ambient state of the interpreter must not matter either: python's calendar module has a process-wide "first weekday" setting
    saved_fw = _cal.firstweekday()
    try:
        for fw in (_cal.SUNDAY, _cal.SATURDAY):
            _cal.setfirstweekday(fw)
            for name in CLASSES:
                for year in (1970, 1999, 2000, 2019, 2024, 2099):
                    for month in range(1, 13):
                        bad = check_contract(name, year, month)
                        acc.case((name, year, month, "firstweekday", fw))
                        for nm, d in bad:
                            d = dict(d or {}); d["calendar.firstweekday"] = fw
                            acc.fail("C19::shell::" + nm, "c19_calendar", {"what": "contract", "class": name, "year": year, "month": month, "firstweekday": fw}, d)
    finally:
        _cal.setfirstweekday(saved_fw)
    for name in CLASSES:
        for (s, e) in SPANS:
            bad, n = check_chain(name, s, e)
            acc.case((name, s, e), sample={"class": name, "span": [s, e], "contracts": n} if (s, e) == SPANS[3] else None)
            for nm, d in bad:
                acc.fail("C19::shell::" + nm, "c19_calendar", {"what": "chain", "class": name, "start": s, "end": e}, d)
    return acc.out(exhaustive=True)


def rerun(inp):
    if inp["what"] == "contract":
        saved_fw = _cal.firstweekday()
        try:
            if "firstweekday" in inp:
                _cal.setfirstweekday(inp["firstweekday"])
            bad = check_contract(inp["class"], inp["year"], inp["month"])
        finally:
            _cal.setfirstweekday(saved_fw)
    else:
        bad, _ = check_chain(inp["class"], inp["start"], inp["end"])
    return {"reproduced": bool(bad), "failing": bad[:3]}
