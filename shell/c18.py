"""C18 bounded shell: the tabular environment serves exactly the data it was given."""
from .common import *
import math
import pandas as pd
import pandas_market_calendars
from tradingenv.env import TradingEnvXY


def tables(seed, n=70, gaps=True, xsparse=False, holidays=True, first="2022-05-02"):
    r = np.random.default_rng(seed)
    idx = pd.bdate_range(first, periods=n)          # 2022-05-02: contains NYSE holidays (Memorial Day, Juneteenth, 4th of July)
    Y = pd.DataFrame({"A": 100 * np.exp(np.cumsum(r.normal(0, .01, n))), "B": 50 * np.exp(np.cumsum(r.normal(0, .01, n)))}, index=idx)
    X = pd.DataFrame({"f1": r.normal(0, 1, n), "f2": r.normal(0, 2, n), "f3": r.normal(3, 1, n)}, index=idx)
    if gaps:
        X.iloc[7] = np.nan                  # an all-NaN feature row (forward filled)
        X.iloc[20, 1] = np.nan
        X.iloc[33:35] = np.nan
        Y.iloc[12, 1] = np.nan              # a missing price
    if xsparse:
        X = X.drop(X.index[[15, 16, 40]])   # dates present in the price table only
        X = X.iloc[3:]
    rate = pd.Series(0.01 + 0.001 * np.arange(n), index=idx, name="rate")
    return X, Y, rate


def check_env(cfg):
    X, Y, rate = tables(cfg["seed"], gaps=cfg["gaps"], xsparse=cfg["xsparse"], first=cfg.get("first", "2022-05-02"))
    kw = dict(transformer=cfg["transformer"], window=cfg["window"], stride=cfg["stride"], spread=cfg["spread"], clip=cfg["clip"],
              steps_delay=0, rate=rate, calendar="NYSE")
    if cfg.get("end"):
        kw["end"] = cfg["end"]
    if cfg.get("start"):
        kw["start"] = cfg["start"]
    env = TradingEnvXY(X, Y, **kw)
    cal = pandas_market_calendars.get_calendar("NYSE")
    hol = set(pd.Timestamp(h) for h in cal.holidays().holidays)
    window, stride = cfg["window"], cfg["stride"]
    bad = []
    obs = env.reset()
    steps = []
    done = False
    k = 0
    first_possible = None
    while True:
        t = pd.Timestamp(env.now())
        steps.append(t)
        rows = env.X.loc[:t].iloc[-window:]
        exp = rows.values
        if stride:
            exp = exp[::-stride][::-1]
        shape_ok = tuple(obs.shape) == tuple(env.observation_space.shape)
        if not shape_ok or len(env.X.loc[:t]) < window or not np.array_equal(np.asarray(obs), exp):
            bad.append(("observation_is_last_window_rows", {"t": str(t), "shape": list(obs.shape), "declared": list(env.observation_space.shape),
                                                            "rows_available": int(len(env.X.loc[:t]))}))
            break
        if not env.observation_space.contains(np.asarray(obs, dtype=env.observation_space.dtype)) or np.abs(obs).max() > 5:
            bad.append(("observation_within_declared_bounds", {"t": str(t), "max_abs": float(np.abs(obs).max())}))
            break
        for c in env.Y.columns:
            p = env.Y.loc[t, c] if t in env.Y.index else np.nan
            bk = env.exchange[c]
            if not np.isnan(p):
                if not (math.isclose(bk.bid_price, p * (1 - cfg["spread"] / 2), rel_tol=1e-12) and
                        math.isclose(bk.ask_price, p * (1 + cfg["spread"] / 2), rel_tol=1e-12)):
                    bad.append(("quotes_are_given_prices_with_spread", {"t": str(t), "contract": str(c), "price": float(p),
                                                                        "bid": float(bk.bid_price), "ask": float(bk.ask_price)}))
        rb = env.exchange[env._broker_fees.interest_rate]
        if t in rate.index and not math.isclose(rb.mid_price, rate.loc[t], rel_tol=1e-12, abs_tol=1e-15):
            bad.append(("rate_is_given_rate", {"t": str(t), "quoted": float(rb.mid_price), "given": float(rate.loc[t])}))
        if t not in Y.index:
            bad.append(("steps_on_price_dates", {"t": str(t)}))
        if t.normalize() in hol:
            bad.append(("no_step_on_exchange_holiday", {"t": str(t)}))
        if bad or done:
            break
        obs, r_, done, _ = env.step(np.array([0.3, -0.2]))
        k += 1
    if cfg.get("end") and steps and steps[-1] > pd.Timestamp(cfg["end"]):
        bad.append(("steps_within_bounds", {"last": str(steps[-1]), "end": cfg["end"]}))
    return bad, {"steps": len(steps), "first": str(steps[0]) if steps else None}


def configs(tier, seed):
    out = []
    for transformer in (None, "z-score", "yeo-johnson"):
        for window, stride in ((1, None), (3, None), (4, 2), (7, 3)) if tier == "quick" else ((1, None), (2, None), (3, None), (4, 2), (5, 2), (7, 3), (12, 5), (30, 7)):
            for gaps, xs in ((True, False), (True, True)):
                out.append({"seed": seed, "transformer": transformer, "window": window, "stride": stride, "spread": 0.01, "clip": 5.0,
                            "gaps": gaps, "xsparse": xs})
    out.append({"seed": seed, "transformer": "z-score", "window": 3, "stride": None, "spread": 0.0, "clip": 1.5, "gaps": True, "xsparse": False,
                "end": "2022-07-04"})            # the end bound is an exchange holiday
    out.append({"seed": seed, "transformer": None, "window": 2, "stride": None, "spread": 0.002, "clip": 5.0, "gaps": False, "xsparse": True,
                "start": "2022-05-30", "end": "2022-06-20"})     # both bounds are exchange holidays
    # a stretch containing ad-hoc (unscheduled) closures of the exchange: 2012-10-29/30 (hurricane Sandy), and 2018-12-05 (day of mourning)
    out.append({"seed": seed, "transformer": "z-score", "window": 2, "stride": None, "spread": 0.001, "clip": 5.0, "gaps": True, "xsparse": False,
                "first": "2012-09-03"})
    out.append({"seed": seed, "transformer": None, "window": 1, "stride": None, "spread": 0.0, "clip": 5.0, "gaps": False, "xsparse": False,
                "first": "2018-10-01"})
    return out


def tabular(tier, seed):
    acc = Acc("70 business days containing three NYSE holidays, 3 features (NaN rows, NaN cells, feature dates missing), 2 prices with a gap, "
              "a rate series; transformers {none, z-score, yeo-johnson} x (window, stride) x {dense, sparse features} + start/end on holidays; "
              "at every step: observation == published X rows, shape and bounds, quotes == price*(1-/+spread/2), rate, dates; "
              "non-trivial = distinct configuration", "70 rows, window <= 30")
    for cfg in configs(tier, seed):
        try:
            bad, info = check_env(cfg)
        except Exception as ex:
            bad, info = [("environment_runs", {"error": "%s: %s" % (type(ex).__name__, str(ex)[:200])})], {}
        acc.case(tuple(sorted((k, str(v)) for k, v in cfg.items())), sample={"config": cfg, "info": info} if cfg["window"] == 4 and cfg["transformer"] == "z-score" else None)
        acc.validated += 1
        for nm, d in bad[:3]:
            acc.fail("C18::shell::" + nm, "c18_tabular", {"config": cfg}, d)
    return acc.out()


def rerun(inp):
    bad, info = check_env(inp["config"])
    return {"reproduced": bool(bad), "failing": bad[:3]}
