"""C11 bounded (but dense) shell: lead-contract resolution at every last-trading instant of every built-in chain, and
roll scenarios in the environment (spread, short targets, thresholds)."""
from .common import *
import pandas as pd
from tradingenv.env import TradingEnv
from tradingenv.transmitter import Transmitter
from tradingenv import contracts as C
from tradingenv.contracts import FutureChain, Cash
from tradingenv.spaces import BoxPortfolio

CHAINS = [("ES", "2017-01", "2024-12"), ("NK", "2017-01", "2024-12"), ("ZN", "2017-01", "2024-12"), ("ZB", "2017-01", "2024-12"),
          ("VX", "2018-01", "2021-12")]


def resolution_case(name, start, end, month, explicit=False):
    cls = getattr(C, name)
    ch = FutureChain(cls, start, end, month=month)
    if explicit:
        # the same chain built from an explicit list given in a non-chronological order (reversed halves interleaved)
        cs = list(ch.contracts)
        mixed = cs[len(cs) // 2:][::-1] + cs[:len(cs) // 2]
        ch = FutureChain(contracts=mixed, month=month)
    ltds = [c.last_trading_date for c in ch.contracts]
    bad = []
    prev_idx = -1
    probes = []
    for i, l in enumerate(ltds[:-1 - month]):
        for dt in (-1, 0, 1):
            probes.append(pd.Timestamp(l).to_pydatetime() + timedelta(seconds=dt))
    for now in sorted(probes):
        want = sum(1 for l in ltds if l <= now) + month          # earliest last-trading date strictly later than now, shifted
        if want >= len(ch.contracts):
            continue
        lead = ch.lead_contract(now)
        if lead is not ch.contracts[want]:
            bad.append({"now": str(now), "lead": lead.symbol, "expected": ch.contracts[want].symbol})
            break
        if not (lead.last_trading_date > now):
            bad.append({"now": str(now), "lead": lead.symbol, "problem": "lead is past its last trading date"})
            break
        idx = ch.contracts.index(lead)
        if idx < prev_idx:
            bad.append({"now": str(now), "problem": "lead moved backwards"})
            break
        prev_idx = idx
        # reading the term structure (contracts behind the lead) at the same instant does not disturb the resolution of the lead
        for k in (1, 2):
            if want + k < len(ch.contracts):
                far = ch.lead_contract(now, month=k)
                if far is not ch.contracts[want + k]:
                    bad.append({"now": str(now), "month_argument": k, "got": far.symbol, "expected": ch.contracts[want + k].symbol})
                    break
        if bad:
            break
        again = ch.lead_contract(now)
        if again is not lead:
            bad.append({"now": str(now), "lead": lead.symbol, "after_term_structure_lookup": again.symbol})
            break
        # the same instance, resolved through the process-wide clock and static hashing, agrees
        C.AbstractContract.now = now
        sh = ch.static_hashing()
        if sh is not lead or ch.symbol != lead.symbol:
            bad.append({"now": str(now), "static_hashing": sh.symbol, "symbol": ch.symbol, "lead_contract": lead.symbol})
            break
    return bad, len(probes)


def roll_case(name, start, end, sign, margin, month=0, small=False):
    cls = getattr(C, name)
    chain = FutureChain(cls, start, end, month=month)
    grid = list(pd.date_range("2019-02-01", "2019-10-15", freq=("D" if name == "VX" else "3D")).to_pydatetime())
    C.AbstractContract.now = grid[0]        # the space hashes the chain (through the process-wide clock) when it is built
    tr = Transmitter(grid)
    r = np.random.default_rng(1)
    for c in chain.contracts:
        p = 100.0
        for g in grid:
            p *= np.exp(r.normal(0, 0.01))
            if g < c.expiry:
                tr.add_events([EventNBBO(g, c, p * 0.999, p * 1.001)])
    env = TradingEnv(action_space=BoxPortfolio([chain], -2, 2, margin=margin), transmitter=tr)
    env.reset()
    done, k = False, 0
    while not done:
        if small:
            w = sign * (0.6 if k < 3 else 0.015)         # a position cut below the threshold, then held across the roll
        else:
            w = sign * (0.5 + 0.1 * (k % 3))
        k += 1
        try:
            _, _, done, _ = env.step(np.array([w]))
        except Exception as ex:
            return {"problem": "raised", "error": "%s: %s" % (type(ex).__name__, str(ex)[:120]), "now": str(env.now())}
        now = env.broker.track_record._time[-1]
        lead = chain.lead_contract(now, )
        q = {c: v for c, v in env.broker.holdings_quantity.items() if v != 0 and not isinstance(c, Cash)}
        others = [c for c in q if c != lead]
        if others:
            return {"problem": "holds a contract other than the lead after a rebalance targeting the chain", "held": [str(c) for c in others],
                    "lead": str(lead), "now": str(now)}
        for c in q:
            if env.now() >= c.expiry:
                return {"problem": "held at/after expiry", "contract": str(c), "now": str(env.now())}
        if not lead.last_trading_date > now:
            return {"problem": "lead past its last trading date", "lead": str(lead), "now": str(now)}
    return None


def chains(tier, seed):
    acc = Acc("resolution: every last-trading instant -1s/0/+1s of 5 built-in chains x month offsets 0..2 (same chain instance queried in "
              "time order through lead_contract, static_hashing and symbol); rolls: 4 classes x long/short x threshold {0, 0.05} x month "
              "offset {0,1} (+ a sub-threshold position held across the roll) on grids finer than the roll window; non-trivial = distinct case",
              "chains of <= 96 contracts, 86..257 timesteps")
    for (name, s, e) in CHAINS:
        for month in (0, 1, 2):
            bad, n = resolution_case(name, s, e, month)
            if not bad:
                bad, _ = resolution_case(name, s, e, month, explicit=True)
                if bad:
                    bad[0]["chain_built_from"] = "explicit unordered list of contracts"
            acc.case(("resolve", name, month), sample={"class": name, "month_offset": month, "instants": n} if (name, month) == ("ES", 1) else None)
            acc.validated += n
            if bad:
                acc.fail("C11::shell::lead_is_earliest_live_contract", "c11_chain", {"case": "resolve", "class": name, "start": s, "end": e, "month": month}, bad[0])
    rolls = [("ES", "2019-01", "2020-06"), ("NK", "2019-01", "2020-06"), ("ZN", "2019-01", "2020-06"), ("VX", "2019-01", "2020-06")]
    for (name, s, e) in (rolls if tier != "quick" else rolls[:2] + rolls[3:]):
        for sign in (+1, -1):
            for margin, month, small in ((0.0, 0, False), (0.05, 0, False), (0.0, 1, False), (0.02, 0, True)):
                if tier == "quick" and (sign, margin, month) == (+1, 0.05, 0):
                    continue
                p = roll_case(name, s, e, sign, margin, month, small)
                acc.case(("roll", name, sign, margin, month, small), sample={"class": name, "sign": sign, "threshold": margin, "month": month} if (name, sign, month) == ("ES", -1, 1) else None)
                acc.validated += 1
                if p:
                    acc.fail("C11::shell::only_the_lead_is_held_after_a_rebalance", "c11_chain",
                             {"case": "roll", "class": name, "start": s, "end": e, "sign": sign, "margin": margin, "month": month, "small": small}, p)
    return acc.out()


def rerun(inp):
    if inp["case"] == "resolve":
        bad, _ = resolution_case(inp["class"], inp["start"], inp["end"], inp["month"])
        if not bad:
            bad, _ = resolution_case(inp["class"], inp["start"], inp["end"], inp["month"], explicit=True)
        return {"reproduced": bool(bad), "failing": bad[:1]}
    p = roll_case(inp["class"], inp["start"], inp["end"], inp["sign"], inp["margin"], inp["month"], inp["small"])
    return {"reproduced": bool(p), "failing": p}
