"""Builders of real tradingenv objects from solver models / scenario parameters (replay, run-time contracts)."""
from datetime import datetime, timedelta
from fractions import Fraction
from tradingenv.contracts import AbstractContract, Cash, Rate
from tradingenv.exchange import Exchange
from tradingenv.events import EventNBBO
from tradingenv.broker.broker import Broker
from tradingenv.broker.fees import BrokerFees
from tradingenv.broker.trade import Trade

T0 = datetime(2020, 1, 1)


class VContract(AbstractContract):
    """a user-defined contract with arbitrary (multiplier, margin requirement, cash requirement)"""

    def __init__(self, symbol, multiplier=1.0, margin_requirement=0.0, cash_requirement=1.0):
        self._symbol = symbol
        self._mult, self._mr, self._cr = float(multiplier), float(margin_requirement), float(cash_requirement)

    @property
    def symbol(self):
        return self._symbol

    @property
    def multiplier(self):
        return self._mult

    @property
    def margin_requirement(self):
        return self._mr

    @property
    def cash_requirement(self):
        return self._cr


def num(x):
    if isinstance(x, str) and "/" in x:
        a, b = x.split("/")
        return float(Fraction(int(a), int(b)))
    if isinstance(x, str):
        try:
            return float(x)
        except ValueError:
            return x
    return x


def model_floats(m):
    return {k: num(v) for k, v in (m or {}).items()}


def broker_from_model(m, symbol="VC"):
    """state injection: a Broker whose private maps are the model's pre-state (A12)"""
    c = VContract(symbol, m.get("mult", 1.0), m.get("mr", 0.0), m.get("cr", 1.0))
    ex = Exchange()
    cash = Cash()
    ex.process_EventNBBO(EventNBBO(T0, cash, 1.0, 1.0))
    fees = BrokerFees(fixed=m.get("commission", 0.0), proportional=m.get("fee_prop", 0.0), markup=m.get("markup", 0.0))
    ex.process_EventNBBO(EventNBBO(T0, fees.interest_rate, m.get("rate", 0.0), m.get("rate", 0.0)))
    if "bid" in m:
        nan = float("nan")
        ex.process_EventNBBO(EventNBBO(T0, c, nan if m.get("bid_nan") else m["bid"], nan if m.get("ask_nan") else m["ask"]))
    b = Broker(ex, base_currency=cash, deposit=m.get("cash0", 100.0), fees=fees, epsilon=m.get("eps", 1e-7))
    if "q0" in m:
        b._holdings_quantity[c] = m["q0"]
        b._holdings_margins[c] = m.get("margin0", 0.0)
    if m.get("has_last"):
        b._last_marking_to_market_price[c] = m.get("last0", 0.0)
    return b, c
