"""C08 / C17 / C15 bounded shell on whole episodes: FIFO delay line with distinct per-step actions, latency pricing at and
around the latency boundary, malformed actions injected at any step, exact decision counts and start coverage."""
from .common import *
import collections
import pandas as pd
from tradingenv.env import TradingEnv
from tradingenv.transmitter import Transmitter
from tradingenv.contracts import ETF
from tradingenv.spaces import BoxPortfolio, DiscretePortfolio
from tradingenv.broker.broker import EndOfEpisodeError

SPY, IEF = ETF("SPY"), ETF("IEF")
GRID = [D0 + timedelta(days=i) for i in range(9)]


def prices():
    return pd.DataFrame({SPY: np.linspace(100, 108, 9), IEF: np.linspace(50, 46, 9)}, index=GRID)


def fifo_case(delay, kind):
    if kind == "box":
        sp = BoxPortfolio([SPY, IEF], -1, 1)
        acts = [np.array([0.1 * k, -0.05 * k]) for k in range(1, 9)]
        null = np.zeros(2)
        allocs = None
    else:
        allocs = [[0., 0.]] + [[0.1 * k, -0.05 * k] for k in range(1, 9)]
        sp = DiscretePortfolio([SPY, IEF], allocs)
        acts = list(range(1, 9))
        null = 0
    env = TradingEnv(action_space=sp, prices=prices(), steps_delay=delay)
    bad = []
    for episode in range(2):                       # the second episode is abandoned mid-way actions of the first must not leak into it
        env.reset()
        executed = []
        todo = acts if episode == 1 else acts[:5]
        for k, a in enumerate(todo):
            _, _, done, info = env.step(a)
            executed.append(dict(info["_rebalancing"].allocation))
            if done:
                break
        for k, ex in enumerate(executed):
            due = null if k < delay else todo[k - delay]
            vec = allocs[due] if kind == "disc" else list(due)
            exp = {c: v for c, v in zip([SPY, IEF], vec) if v != 0}
            if {c: round(float(v), 12) for c, v in ex.items()} != {c: round(float(v), 12) for c, v in exp.items()}:
                bad.append({"episode": episode, "step": k, "executed": {str(c): float(v) for c, v in ex.items()},
                            "due": {str(c): float(v) for c, v in exp.items()}})
    return bad


def latency_case(latency, offset):
    """a quote stamped `offset` seconds after timestep t must price the execution iff offset <= latency"""
    a = ETF("AAA")
    grid = [D0 + timedelta(hours=i) for i in range(5)]
    tr = Transmitter(grid)
    for i, g in enumerate(grid):
        tr.add_events([EventNBBO(g, a, 100 + i, 100 + i)])
        tr.add_events([EventNBBO(g + timedelta(seconds=offset), a, 200 + i, 200 + i)])
    env = TradingEnv(action_space=BoxPortfolio([a], -1, 1), transmitter=tr, latency=latency)
    env.reset()
    bad = []
    for k in range(3):
        _, _, done, info = env.step(np.array([0.5 if k % 2 == 0 else -0.5]))
        rb = info["_rebalancing"]
        for t in rb.trades:
            want = (200 + k) if offset <= latency else (100 + k)
            if offset == 0:
                want = 200 + k          # same stamp: insertion order, the later quote wins before the execution
            if t.acq_price != want:
                bad.append({"step": k, "priced_at": t.acq_price, "expected": want})
    return bad


def malformed_case(delay, badact, at, with_cash=False, array_bounds=False):
    if array_bounds:
        # per-contract bounds: IEF capped at 30 % long, SPY may not be shorted; the bad action respects the envelope but not its own bound
        env = TradingEnv(action_space=BoxPortfolio([SPY, IEF], np.array([0.0, -1.0]), np.array([1.0, 0.3])), prices=prices(), steps_delay=delay)
    elif with_cash:
        from tradingenv.contracts import Cash
        env = TradingEnv(action_space=BoxPortfolio([Cash(), SPY], -1, 1), prices=prices()[[SPY]], steps_delay=delay)
    else:
        env = TradingEnv(action_space=BoxPortfolio([SPY, IEF], -1, 1), prices=prices(), steps_delay=delay)
    env.reset()
    raised_at = None
    for k in range(7):
        a = badact if k == at else (np.array([0.3, 0.2]) if array_bounds else np.array([0.3, 0.3]))
        before = (len(env.broker.track_record), dict(env.broker.holdings_quantity))
        try:
            env.step(a)
        except EndOfEpisodeError:
            break
        except Exception:
            raised_at = k
            after = (len(env.broker.track_record), dict(env.broker.holdings_quantity))
            if before != after:
                return {"problem": "state changed on rejection", "step": k}
            break
    if raised_at is None:
        return {"problem": "never rejected"}
    if raised_at > at + delay:
        return {"problem": "rejected late", "raised_at": raised_at, "due": at + delay}
    return None


def malformed_discrete_case(delay, bad, at):
    """an invalid index for a discrete space (non-integer, negative, too large, NaN) is never executed"""
    env = TradingEnv(action_space=DiscretePortfolio([SPY, IEF], [[0, 0], [0.5, 0.2], [0.2, 0.5], [-0.3, 0.3]]), prices=prices(), steps_delay=delay)
    env.reset()
    raised_at = None
    for k in range(7):
        a = bad if k == at else (k % 4)
        before = (len(env.broker.track_record), dict(env.broker.holdings_quantity))
        try:
            env.step(a)
        except EndOfEpisodeError:
            break
        except Exception:
            raised_at = k
            if (len(env.broker.track_record), dict(env.broker.holdings_quantity)) != before:
                return {"problem": "state changed on rejection", "step": k}
            break
    if raised_at is None:
        return {"problem": "never rejected", "holdings": {str(c): q for c, q in env.broker.holdings_quantity.items()}}
    if raised_at > at + delay:
        return {"problem": "rejected late", "raised_at": raised_at, "due": at + delay}
    return None


BAD_INDICES = {"fractional_1.7": 1.7, "fractional_2.5": 2.5, "negative_half": -0.5, "np_float_1.2": np.float64(1.2), "too_large": 4, "negative": -1,
               "nan": float("nan")}


def denotes_case(kind, as_weights, fractional):
    """C17: an in-space action is executed as the allocation it denotes, in the declared unit, cash entry ignored"""
    from tradingenv.contracts import Cash
    cash = Cash()
    cs = [cash, SPY, IEF]
    vec = [0.3, 0.25, -0.1] if as_weights else [5.0, 7.0, -3.0]
    if kind == "box":
        sp = BoxPortfolio(cs, -10, 10, as_weights=as_weights, fractional=fractional)
        action = np.array(vec)
    else:
        sp = DiscretePortfolio(cs, [[0, 0, 0], vec], as_weights=as_weights, fractional=fractional)
        action = 1
    env = TradingEnv(action_space=sp, prices=prices(), initial_cash=10000)
    env.reset()
    _, _, _, info = env.step(action)
    rb = info["_rebalancing"]
    want_cls = "Weights" if as_weights else "NrContracts"
    exp = {SPY: vec[1], IEF: vec[2]}
    got = {c: float(v) for c, v in dict(rb.allocation).items()}
    prob = {}
    if type(rb.allocation).__name__ != want_cls:
        prob["unit"] = [type(rb.allocation).__name__, want_cls]
    if rb.fractional != fractional:
        prob["fractional"] = [rb.fractional, fractional]
    if got != exp:
        prob["allocation"] = [{str(c): v for c, v in got.items()}, {str(c): v for c, v in exp.items()}]
    q = env.broker.holdings_quantity
    if not as_weights and fractional and (abs(q.get(SPY, 0) - vec[1]) > 1e-9 or abs(q.get(IEF, 0) - vec[2]) > 1e-9):
        prob["positions"] = {str(c): float(v) for c, v in q.items()}
    return prob or None


BAD_ACTIONS = {"short": np.array([0.5]), "out_of_bounds": np.array([0.5, 2.0]), "nan": np.array([np.nan, 0.1]),
               "2d": np.array([[0.1, 0.1]]), "string": "x", "nan_in_cash_slot": np.array([np.nan, 0.5]),
               "above_own_cap_inside_envelope": np.array([0.1, 0.8]), "below_own_floor_inside_envelope": np.array([-0.5, 0.1])}
ARRAY_BOUNDS = ("above_own_cap_inside_envelope", "below_own_floor_inside_envelope")


def timing(tier, seed):
    acc = Acc("FIFO: delays 0..3 x {box, discrete} with 8 distinct per-step actions, executed allocation compared with the action "
              "submitted d steps earlier (null action first); latency: a second quote at offsets {0, L-1, L, L+1, 2L} s after each "
              "timestep, execution price must be that quote iff offset <= L; malformed actions {wrong length, out of bounds, NaN, 2-D, "
              "string, outside a per-contract bound but inside the envelope of all bounds} injected at steps {0,2} under delays {0,1,2}: rejected no later than due, state unchanged; "
              "non-trivial = distinct case", "9 timesteps, 2 assets")
    for delay in range(0, 4):
        for kind in ("box", "disc"):
            try:
                bad = fifo_case(delay, kind)
            except Exception as ex:
                bad = [{"raised": "%s: %s" % (type(ex).__name__, str(ex)[:200])}]
            acc.case(("fifo", delay, kind), sample={"delay": delay, "space": kind} if (delay, kind) == (2, "disc") else None)
            acc.validated += 1
            if bad:
                acc.fail("C08::shell::fifo_delay_line", "c08_timing", {"case": "fifo", "delay": delay, "space": kind}, bad[:2])
    for L in ((30,) if tier == "quick" else (1, 30, 600)):
        for off in (0, L - 1, L - 0.5, L, L + 1e-6, L + 0.5, L + 1, 2 * L):
            if off < 0:
                continue
            try:
                bad = latency_case(L, off)
            except Exception as ex:
                bad = [{"raised": "%s: %s" % (type(ex).__name__, str(ex)[:200])}]
            acc.case(("latency", L, off), sample={"latency": L, "quote_offset": off} if off == L else None)
            acc.validated += 1
            if bad:
                acc.fail("C08::shell::priced_at_last_quote_within_latency", "c08_timing", {"case": "latency", "latency": L, "offset": off}, bad[:2])
    # fractional latencies: the closed end of (t, t + L] must hold for values such as 4.1 s whose product with 1e6 is not an exact float
    for L in ((0.3, 4.1, 16.4) if tier == "quick" else (0.3, 2.01, 4.02, 4.1, 8.2, 16.4, 32.3)):
        for off in (round(L - 0.001, 6), L, round(L + 0.001, 6)):
            try:
                bad = latency_case(L, off)
            except Exception as ex:
                bad = [{"raised": "%s: %s" % (type(ex).__name__, str(ex)[:200])}]
            acc.case(("latency", L, off))
            acc.validated += 1
            if bad:
                acc.fail("C08::shell::priced_at_last_quote_within_latency", "c08_timing", {"case": "latency", "latency": L, "offset": off}, bad[:2])
    for kind in ("box", "disc"):
        for as_weights in (True, False):
            for fractional in (True, False):
                p = denotes_case(kind, as_weights, fractional)
                acc.case(("denotes", kind, as_weights, fractional))
                acc.validated += 1
                if p:
                    acc.fail("C17::shell::executed_as_the_allocation_it_denotes", "c08_timing",
                             {"case": "denotes", "space": kind, "as_weights": as_weights, "fractional": fractional}, p)
    for delay in (0, 1, 2):
        for nm in BAD_ACTIONS:
            for at in (0, 2):
                p = malformed_case(delay, BAD_ACTIONS[nm], at, with_cash=(nm == "nan_in_cash_slot"), array_bounds=nm in ARRAY_BOUNDS)
                acc.case(("malformed", delay, nm, at))
                acc.validated += 1
                if p:
                    acc.fail("C17::shell::malformed_action_rejected_when_due", "c08_timing", {"case": "malformed", "delay": delay, "action": nm, "at": at}, p)
    for delay in (0, 1, 2):
        for nm, bad in BAD_INDICES.items():
            for at in (0, 2):
                try:
                    p = malformed_discrete_case(delay, bad, at)
                except Exception as ex:
                    p = {"problem": "scenario crashed", "error": "%s: %s" % (type(ex).__name__, str(ex)[:160])}
                acc.case(("malformed_index", delay, nm, at))
                acc.validated += 1
                if p:
                    acc.fail("C17::shell::malformed_action_rejected_when_due", "c08_timing", {"case": "malformed_index", "delay": delay, "action": nm, "at": at}, p)
    return acc.out()


def decisions(tier, seed):
    """C15: configured episode length n gives exactly n decisions, consecutive timesteps, every fitting start reachable"""
    acc = Acc("episode_length n in 1..9 on a 9-point grid: each of 300 (quick: 120) seeded episodes has exactly n decisions on consecutive "
              "grid points; the set of observed starts equals the set of positions where the episode fits; n too large is refused; "
              "non-trivial = distinct n", "9 timesteps")
    np.random.seed(seed)
    reps = 120 if tier == "quick" else 400
    for n in range(1, 10):
        inp = {"case": "decisions", "n": n, "seed": seed, "reps": reps}
        try:
            env = TradingEnv(action_space=BoxPortfolio([SPY, IEF]), prices=prices(), episode_length=n)
            starts = collections.Counter()
            prob = None
            for rep in range(reps):
                env.reset()
                starts[env.now()] += 1
                k, done, ts = 0, False, [env.now()]
                while not done:
                    _, _, done, _ = env.step(np.array([0.2, 0.2]))
                    k += 1
                    ts.append(env.now())
                if k != n:
                    prob = {"decisions": k, "configured": n}
                    break
                i0 = GRID.index(ts[0]) if ts[0] in GRID else -1
                if i0 < 0 or ts != GRID[i0:i0 + n + 1]:
                    prob = {"not_consecutive": [str(t) for t in ts[:4]]}
                    break
            valid = len(GRID) - n
            if prob is None and len(starts) != valid and valid > 0:
                prob = {"starts_seen": len(starts), "valid_starts": valid}
            if prob is None and n + 2 < len(GRID):
                # the configured length survives a one-off override: reset(episode_length=m) then a plain reset()
                for m in (n + 2, 2):
                    env.reset(episode_length=m)
                    done = False
                    while not done:
                        _, _, done, _ = env.step(np.array([0.2, 0.2]))
                    env.reset()
                    k, done = 0, False
                    while not done:
                        _, _, done, _ = env.step(np.array([0.2, 0.2]))
                        k += 1
                    if k != n:
                        prob = {"after_one_off_override": m, "decisions": k, "configured": n}
                        break
            acc.case(("n", n), sample={"n": n, "valid_starts": valid, "seen": len(starts)} if n == 3 else None)
            acc.validated += reps
            if prob:
                acc.fail("C15::shell::exact_decisions_and_start_coverage", "c08_timing", inp, prob)
        except ValueError as ex:
            acc.case(("n", n))
            if n < len(GRID):
                acc.fail("C15::shell::fitting_episode_refused", "c08_timing", inp, {"error": str(ex)[:200]})
    return acc.out()


def rerun(inp):
    c = inp["case"]
    if c == "fifo":
        bad = fifo_case(inp["delay"], inp["space"])
    elif c == "latency":
        bad = latency_case(inp["latency"], inp["offset"])
    elif c == "malformed":
        bad = malformed_case(inp["delay"], BAD_ACTIONS[inp["action"]], inp["at"], with_cash=(inp["action"] == "nan_in_cash_slot"),
                             array_bounds=inp["action"] in ARRAY_BOUNDS)
    elif c == "malformed_index":
        bad = malformed_discrete_case(inp["delay"], BAD_INDICES[inp["action"]], inp["at"])
    elif c == "denotes":
        bad = denotes_case(inp["space"], inp["as_weights"], inp["fractional"])
    else:
        r = decisions("quick", inp.get("seed", 0))
        bad = [f for f in r["failures"] if f["input"].get("n") == inp.get("n")]
    return {"reproduced": bool(bad), "failing": bad if isinstance(bad, dict) else bad[:2]}
