"""Replay constructors: solver model -> real objects -> real call -> the contract's clause evaluated concretely."""
from contracts import _spec as S
from .realobj import *


def _equity(v):
    return sum(S.eq_term(v, k) for k in v.keys())


def transact_nlv_delta(ob):
    m = model_floats(ob["model"])
    b, c = broker_from_model(m)
    vo = S.ConcreteBrokerView(b, S.ConcreteBrokerView.snap(b))
    trade = Trade(T0, c, m["dq"], m["bid"], m["ask"], broker_fees=b.fees)
    e0 = _equity(vo)
    q0, dq = vo.qty(c), m["dq"]
    q1 = q0 + dq
    expected = -trade.cost_of_commissions + c.multiplier * (q1 * S.liq(vo, c, q1) - q0 * S.liq(vo, c, q0) - dq * trade.acq_price)
    b.transact(trade)
    vn = S.ConcreteBrokerView(b)
    actual = _equity(vn) - e0
    dust = q1 != 0 and abs(q1) < b._epsilon
    return {"reproduced": not S.eq(actual, expected), "construction": "state injection (A12)",
            "clause": "equity' - equity == -commission + mult*(q1*liq(q1) - q0*liq(q0) - dq*acq)",
            "expected_nlv_change": expected, "actual_nlv_change": actual, "in_dust_region_D3": dust,
            "pre": {"q0": q0, "dq": dq, "bid": m["bid"], "ask": m["ask"], "mult": c.multiplier, "mr": c.margin_requirement,
                    "cr": c.cash_requirement, "margin0": vo.margin(c), "last0": m.get("last0"), "has_last": m.get("has_last")},
            "post": {"q": vn.qty(c), "margin": vn.margin(c), "cash": vn.qty(b.base_currency)}}


transact_nlv_delta.kind = "transact_nlv_delta"


def holdings_values_liquidation(ob):
    """D2-style: value of a fully-paid position must carry the multiplier"""
    m = model_floats(ob["model"])
    b, c = broker_from_model(m)
    v = S.ConcreteBrokerView(b)
    hv = b.holdings_values(kind="liquidation")
    q = v.qty(c)
    lp = v.bid(c) if q >= 0 else v.ask(c)
    expected = 0.0 if q == 0 else c.cash_requirement * c.multiplier * q * lp + v.margin(c)
    actual = hv[c]
    return {"reproduced": not S.eq(actual, expected), "construction": "state injection (A12)",
            "clause": "holdings_values('liquidation')[c] == cr*mult*q*liq + margins[c]", "expected": expected,
            "actual": actual, "pre": {"q": q, "mult": c.multiplier, "cr": c.cash_requirement, "bid": v.bid(c), "ask": v.ask(c)}}


holdings_values_liquidation.kind = "holdings_values_liquidation"

def accrued_interest_query(ob):
    """a query (accrue=False) must change nothing: cash and the accrual clock"""
    from datetime import timedelta
    m = model_floats(ob["model"])
    mm = {"cash0": m.get("cash0", 100.0), "markup": m.get("markup", 0.0), "rate": (m.get("rate_bid", 0.0) + m.get("rate_ask", 0.0)) / 2}
    b, c = broker_from_model(mm)
    now = T0 + timedelta(seconds=float(m.get("now", 0.0)))
    if "last_accrual" in m:
        b._last_accrual = T0 + timedelta(seconds=float(m["last_accrual"]))
    before = (b._holdings_quantity[b.base_currency], b._last_accrual)
    b.accrued_interest(now, accrue=False)
    after = (b._holdings_quantity[b.base_currency], b._last_accrual)
    # what a later accrual credits with and without the query
    b2, _ = broker_from_model(dict(mm, rate=0.05))
    b3, _ = broker_from_model(dict(mm, rate=0.05))
    b2.accrued_interest(T0, accrue=False)
    with_query = b2.accrued_interest(T0 + timedelta(days=365), accrue=True)
    b3.accrued_interest(T0 - timedelta(days=365), accrue=True)
    without_query = b3.accrued_interest(T0 + timedelta(days=365), accrue=True)
    return {"reproduced": before != after, "clause": "accrued_interest(now, accrue=False) leaves cash and _last_accrual unchanged",
            "before": [before[0], str(before[1])], "after": [after[0], str(after[1])],
            "illustration": {"credited_after_a_query_at_T0": with_query, "credited_when_clock_started_a_year_earlier": without_query}}


accrued_interest_query.kind = "accrued_interest_query"

def make_trades_raises(ob):
    """C12/C13: make_trades may raise only for a missing quote; a sub-lot imbalance must be skipped, not fail"""
    from tradingenv.broker.rebalancing import Rebalancing
    m = model_floats(ob["model"])
    b, c = broker_from_model(m)
    v = S.ConcreteBrokerView(b)
    if "nlv" in m and m["nlv"] > 0:
        # make the account's equity equal to the model's NLV by choosing the cash balance
        rest = sum(S.eq_term(v, k) for k in v.keys() if k != b.base_currency)
        b._holdings_quantity[b.base_currency] = m["nlv"] - rest
    weights_mode, fractional = bool(m.get("weights_mode", True)), bool(m.get("fractional", True))
    if not m.get("in_target", True):
        contracts, alloc = [], []
    else:
        contracts, alloc = [c], [m.get("target", 0.0)]
    rb = Rebalancing(contracts=contracts, allocation=alloc, measure="weight" if weights_mode else "nr-contracts",
                     fractional=fractional, margin=m.get("threshold", 0.0), time=T0)
    v = S.ConcreteBrokerView(b)
    missing = any(v.qty(k) != 0 and (v.bid_nan(k) if v.qty(k) > 0 else v.ask_nan(k)) for k in v.keys())
    nlv = sum(S.eq_term(v, k) for k in v.keys())
    try:
        trades = rb.make_trades(b)
        outcome = "returned %d trades" % len(trades)
        raised = None
    except Exception as ex:
        raised = type(ex).__name__
        outcome = "%s: %s" % (raised, ex)
    quotes_present = not (v.bid_nan(c) or v.ask_nan(c))
    reproduced = raised == "ValueError" and not missing and quotes_present and nlv > 0
    return {"reproduced": reproduced, "construction": "state injection (A12), cash chosen so that equity = model NLV",
            "clause": "make_trades raises ValueError only if a needed quote is missing", "outcome": outcome,
            "pre": {"q0": v.qty(c), "target": m.get("target"), "weights_mode": weights_mode, "fractional": fractional,
                    "bid": v.bid(c), "ask": v.ask(c), "nlv": nlv, "threshold": m.get("threshold")}}


make_trades_raises.kind = "make_trades_raises"

def null_action_in_space(ob):
    """C08: the null action used to fill the delay line must be an element of the action space"""
    from tradingenv.spaces import DiscretePortfolio, BoxPortfolio
    from tradingenv.contracts import ETF
    cs = [ETF("A"), ETF("B")]
    out = {}
    for name, sp in (("DiscretePortfolio", DiscretePortfolio(cs, [[0, 0], [1, 0], [0, 1]])), ("BoxPortfolio", BoxPortfolio(cs, -1, 1))):
        a = sp.null_action()
        out[name] = {"null_action": repr(a), "type": type(a).__name__, "in_space": bool(a in sp)}
    bad = [n for n, v in out.items() if not v["in_space"]]
    return {"reproduced": bool(bad), "clause": "null_action() in action_space", "spaces": out, "not_in_space": bad}


null_action_in_space.kind = "null_action_in_space"

def step_insolvent(ob):
    """C09/D6: the step during which the account becomes insolvent must report done, not raise"""
    import warnings
    warnings.filterwarnings("ignore")
    import numpy as np, pandas as pd
    from datetime import datetime, timedelta
    from tradingenv.env import TradingEnv
    from tradingenv.contracts import ETF
    from tradingenv.spaces import BoxPortfolio
    spy = ETF("SPY")
    d0 = datetime(2020, 1, 1)
    grid = [d0 + timedelta(days=i) for i in range(5)]
    prices = pd.DataFrame({spy: [100, 100, 300, 300, 300]}, index=grid)
    env = TradingEnv(action_space=BoxPortfolio([spy], low=-2, high=2), prices=prices)
    env.reset()
    log = []
    raised = None
    for i in range(4):
        try:
            out = env.step(np.array([-1.0]))
            log.append({"step": i, "reward": float(out[1]), "done": bool(out[2])})
            if out[2]:
                break
        except Exception as ex:
            raised = "%s: %s" % (type(ex).__name__, ex)
            import traceback
            site = [l.strip() for l in traceback.format_exc().splitlines() if "rewards.py" in l or "env.py" in l]
            log.append({"step": i, "raised": raised, "through": site[-2:] if site else []})
            break
    return {"reproduced": raised is not None and raised.startswith("EndOfEpisodeError"),
            "clause": "TradingEnv.step never lets EndOfEpisodeError escape unless the episode had already ended",
            "scenario": "one ETF, 100% short, price 100 -> 300 at the third timestep", "trace": log}


step_insolvent.kind = "step_insolvent"

def marking_to_market_post(ob):
    """C05: after marking-to-market the posted margin is requirement x multiplier x |position| x liquidation price, equity unchanged"""
    from .runtime import Monitor
    m = model_floats(ob["model"])
    q0 = m.get("q0", 0.0)
    if m.get("skolem_is_cash") or (q0 >= 0 and m.get("bid_nan")) or (q0 <= 0 and m.get("ask_nan")):
        return {"reproduced": False, "reason": "model is about the cash key / a missing liquidation-side quote: no constructor"}
    b, c = broker_from_model(m)
    b._holdings_margins[c] = m.get("margin0", 0.0)
    v0 = S.ConcreteBrokerView(b, S.ConcreteBrokerView.snap(b))
    nlv0 = sum(S.eq_term(v0, k) for k in v0.keys())
    mon = Monitor()
    mon.install()
    extra = []
    w = {}
    try:
        if nlv0 > 0:
            w = b.holdings_weights()                # a valuation on the injected (possibly unmarked) state
            v1 = S.ConcreteBrokerView(b)
            if v0.qty(c) != 0:
                want = v0.qty(c) * S.liq(v0, c, v0.qty(c)) * c.multiplier / nlv0
                if not S.eq(float(w.get(c, 0.0)), want):
                    extra.append(("Broker.holdings_weights::ratio", {"reported": float(w.get(c, 0.0)), "expected": want}))
            if c.margin_requirement != 0 and v0.has_last(c) and not S.eq(v1.margin(c), S.target(v0, c)):
                extra.append(("valuation::margin_at_target", {"margin_after_valuation": v1.margin(c), "target": S.target(v0, c)}))
        b.marking_to_market()
        b.net_liquidation_value(False)
    except Exception as ex:
        mon.flag("raised", {"error": "%s: %s" % (type(ex).__name__, ex)})
    finally:
        mon.uninstall()
    viol = mon.viol + extra
    return {"reproduced": bool(viol), "construction": "state injection (A12); the contracts' clauses evaluated concretely at every call",
            "violated_clauses": viol[:4], "pre": {k: m.get(k) for k in ("q0", "bid", "ask", "mult", "mr", "cr", "margin0", "has_last", "last0")}}


marking_to_market_post.kind = "marking_to_market_post"

TABLE = {f.kind: f for f in (marking_to_market_post, step_insolvent, null_action_in_space, make_trades_raises, transact_nlv_delta, holdings_values_liquidation, accrued_interest_query)}


def _dt(sec):
    from datetime import datetime, timedelta
    return datetime(2000, 1, 1) + timedelta(seconds=float(sec))


def partition_slot(ob):
    """C04/C08: latent iff stamped within `latency` seconds after the previous timestep; stored under the first timestep >= stamp"""
    from tradingenv.transmitter import Transmitter
    from shell.common import Tick
    m = model_floats(ob["model"])
    if "t_slot" not in m:
        return {"reproduced": False, "reason": "model has no slot values"}
    grid = [m["t_slot"]]
    if m.get("slot_index", 0) > 0:
        grid.insert(0, m["t_prev"])
    if m.get("n", 1) > m.get("slot_index", 0) + 1 and m.get("t_next", 0) > m["t_slot"]:
        grid.append(m["t_next"])
    tr = Transmitter([_dt(x) for x in grid])
    ev = Tick(_dt(m["event_time"]), 0)
    tr.add_events([ev])
    tr._create_partitions(latency=m["latency"])
    lat = {t: list(v) for t, v in tr._partition_latent.items() if v}
    non = {t: list(v) for t, v in tr._partition_nonlatent.items() if v}
    et = _dt(m["event_time"])
    later = [g for g in tr.timesteps if g >= et]
    want_slot = later[0] if later else None
    prev = [g for g in tr.timesteps if g < et]
    want_latent = bool(prev) and (et - prev[-1]).total_seconds() <= m["latency"]
    got = [(t, "latent") for t in lat] + [(t, "nonlatent") for t in non]
    ok = (want_slot is None and not got) or (len(got) == 1 and got[0][0] == want_slot and (got[0][1] == "latent") == want_latent)
    return {"reproduced": not ok, "clause": "stored once under the first timestep >= stamp; latent iff stamp - previous timestep <= latency",
            "grid": [str(g) for g in tr.timesteps], "event": str(et), "latency": m["latency"], "stored": [(str(t), w) for t, w in got],
            "expected": [str(want_slot), "latent" if want_latent else "nonlatent"]}


partition_slot.kind = "partition_slot"


def accrued_interest_formula(ob):
    """C06: the amount accrued is the stated compounding formula"""
    from datetime import timedelta
    from .runtime import Monitor
    m = model_floats(ob["model"])
    rate = (m.get("rate_bid", 0.0) + m.get("rate_ask", 0.0)) / 2
    markup = m.get("markup", 0.0)
    if not (-0.2 < rate < 0.24) or not (0 <= markup < 1 + rate - 0.01):
        rate, markup = 0.05, 0.01          # the model's rate book is outside what Rate.verify accepts: use a sane one, keep cash and times
    mm = {"cash0": m.get("cash0", 100.0) * 1000, "markup": markup, "rate": rate}
    b, c = broker_from_model(mm)
    now = T0 + timedelta(seconds=float(m.get("now", 0.0)))
    b._last_accrual = T0 + timedelta(seconds=float(m["last_accrual"])) if "last_accrual" in m else None
    if b._last_accrual is None or (now - b._last_accrual).total_seconds() < 86400 * 10:
        b._last_accrual = now - timedelta(days=200)
    b._last_growth = (None, 0.) if hasattr(b, "_last_growth") else None
    mon = Monitor()
    mon.install()
    try:
        # two accruals of equal length around a sign flip of the cash balance, then the model's own call
        b.accrued_interest(b._last_accrual + (now - b._last_accrual) / 2, accrue=True)
        b._holdings_quantity[b.base_currency] *= -1
        b.accrued_interest(now, accrue=True)
        b.accrued_interest(now + timedelta(hours=6), accrue=True)
    except Exception as ex:
        mon.flag("raised", {"error": "%s: %s" % (type(ex).__name__, ex)})
    finally:
        mon.uninstall()
    return {"reproduced": bool(mon.viol), "construction": "state injection (A12) + three accruals (equal length around a sign flip, then a sub-day one); "
            "the contract's formula evaluated concretely at each call", "violated_clauses": mon.viol[:3]}


accrued_interest_formula.kind = "accrued_interest_formula"


def exchange_event(ob):
    """C14: last quote wins / dead stays dead / a key addresses the book of its static hash"""
    import math
    from tradingenv.events import EventContractDiscontinued
    from tradingenv.contracts import ETF, ES, FutureChain, AbstractContract
    m = model_floats(ob["model"])
    ex = Exchange()
    nan = float("nan")
    chain = FutureChain(ES, "2018-03", "2019-12")
    AbstractContract.now = chain.contracts[2].last_trading_date - timedelta(days=20)
    key = ETF("X") if m.get("key_is_static", True) else chain
    static = key.static_hashing()
    viol = []
    if m.get("book_exists") and "old_bid" in m and key is not chain:     # for a chain key the first access must be the chain-keyed event itself
        ex.process_EventNBBO(EventNBBO(T0, static, nan if m.get("old_bid_nan") else m["old_bid"], nan if m.get("old_ask_nan") else m.get("old_ask", m["old_bid"])))
    if m.get("alive") is False:
        ex.process_EventContractDiscontinued(EventContractDiscontinued(T0, static))
    hist0 = len(ex._books[static].history["bid_price"]) if static in ex._books else 0
    if "ev_bid" in m:
        b, a = (nan if m.get("ev_bid_nan") else m["ev_bid"]), (nan if m.get("ev_ask_nan") else m["ev_ask"])
        ex.process_EventNBBO(EventNBBO(T0 + timedelta(seconds=1), key, b, a))
        bk = ex._books.get(static)
        same = lambda x, y: (x != x and y != y) or x == y
        if m.get("alive", True):
            if bk is None or not (same(bk.bid_price, b) and same(bk.ask_price, a)) or len(bk.history["bid_price"]) != hist0 + 1:
                viol.append(("last_quote_wins_in_the_book_of_the_static_hash", {"book": None if bk is None else [bk.bid_price, bk.ask_price]}))
        elif bk is not None and (bk.is_alive or not (bk.bid_price != bk.bid_price)):
            viol.append(("dead_stays_dead", {"book": [bk.bid_price, bk.ask_price, bk.is_alive]}))
        if len(ex._books) > (1 if True else 0) and any(k is not static and k != static for k in ex._books):
            viol.append(("no_other_book_created", {"keys": [str(k) for k in ex._books]}))
        if key is chain and m.get("alive", True) and b == b:
            # a chain key addresses the book of its lead contract: after the roll that contract still reports the quote it received
            AbstractContract.now = static.last_trading_date + timedelta(days=1)
            bk2 = ex[static]
            if not (same(bk2.bid_price, b) and same(bk2.ask_price, a)):
                viol.append(("quote_sent_through_a_chain_key_stays_with_its_lead_contract", {"contract": str(static), "book_after_roll": [bk2.bid_price, bk2.ask_price]}))
    else:
        ex.process_EventContractDiscontinued(EventContractDiscontinued(T0 + timedelta(seconds=1), key))
        bk = ex._books.get(static)
        if bk is None or bk.is_alive or not (bk.bid_price != bk.bid_price):
            viol.append(("discontinued_book_is_dead_and_priceless", {"book": None if bk is None else [bk.bid_price, bk.is_alive]}))
        ex.process_EventNBBO(EventNBBO(T0 + timedelta(seconds=2), key, 5.0, 6.0))
        bk = ex._books.get(static)
        if bk is None or bk.is_alive or not (bk.bid_price != bk.bid_price):
            viol.append(("dead_ignores_later_quotes", {"book": None if bk is None else [bk.bid_price, bk.is_alive]}))
    return {"reproduced": bool(viol), "construction": "fresh Exchange driven through its public event API from the model's book state",
            "violated_clauses": viol, "key": str(key), "static_hash": str(static)}


exchange_event.kind = "exchange_event"


def trade_init(ob):
    """C12/C13: Trade.__init__ rejects exactly NaN bid/ask/quantity, zero quantity and cash; otherwise its fields are the stated ones"""
    import math
    m = model_floats(ob["model"])
    nan = float("nan")
    c = Cash() if m.get("is_cash") else VContract("VC", m.get("mult", 1.0), 0.0, m.get("cr", 1.0))
    q = nan if m.get("dq_nan") else m.get("dq", 1.0)
    b = nan if m.get("bid_nan") else m.get("bid", 1.0)
    a = nan if m.get("ask_nan") else m.get("ask", 1.0)
    fees = BrokerFees(fixed=m.get("fee_fixed", 0.0), proportional=m.get("fee_prop", 0.0))
    must_raise = (q != q) or (b != b) or (a != a) or q == 0 or m.get("is_cash", False)
    try:
        t = Trade(T0, c, q, b, a, fees)
        raised = None
    except ValueError as ex:
        raised, t = str(ex), None
    viol = []
    if must_raise != (raised is not None):
        viol.append(("raises_iff_unusable_inputs", {"must_raise": must_raise, "raised": raised}))
    if t is not None and not must_raise:
        acq = a if q > 0 else b
        want = {"acq_price": acq, "notional": acq * q * c.multiplier, "cost_of_cash": acq * q * c.multiplier * c.cash_requirement,
                "cost_of_commissions": fees.fixed + abs(acq * q * c.multiplier) * fees.proportional, "cost_of_spread": abs(q) * c.multiplier * (a - b)}
        for f_, w in want.items():
            if not S.eq(getattr(t, f_), w):
                viol.append(("field[%s]" % f_, {"got": getattr(t, f_), "expected": w}))
    return {"reproduced": bool(viol), "violated_clauses": viol[:3], "inputs": {"quantity": q, "bid": b, "ask": a, "cash": bool(m.get("is_cash"))}}


trade_init.kind = "trade_init"

TABLE.update({f.kind: f for f in (partition_slot, accrued_interest_formula, exchange_event, trade_init)})
