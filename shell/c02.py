"""C02 bounded shell (two-run check): perturb every value stamped after a cut time t and compare the full output prefix up
to t bit-for-bit; also through the tabular API (TradingEnvXY) with the transformer fitted up to a date <= t."""
from .common import *
import pandas as pd
from tradingenv.env import TradingEnv, TradingEnvXY
from tradingenv.transmitter import Transmitter
from tradingenv.contracts import ETF
from tradingenv.events import EventNewObservation
from tradingenv.spaces import BoxPortfolio
from tradingenv.state import State
from tradingenv.broker.fees import BrokerFees


def run(vals, latency, delay, markov=False, warm=None, fold=None):
    d = datetime(2020, 1, 6, 9)
    n = len(vals)
    grid = [d + timedelta(days=i) for i in range(n)]
    spy = ETF("SPY")
    folds = None if fold is None else {"f": [grid[fold[0]], grid[fold[1]]]}
    tr = Transmitter(grid, folds, markov, warm)
    evs = []
    for i, g in enumerate(grid):
        p = vals[i]
        evs.append(EventNBBO(g, spy, p * 0.999, p * 1.001))
        evs.append(EventNBBO(g + timedelta(seconds=30), spy, p * 1.01 * 0.999, p * 1.01 * 1.001))
        evs.append(EventNBBO(g + timedelta(seconds=90), spy, p * 0.99 * 0.999, p * 0.99 * 1.001))
        evs.append(EventNewObservation(g, {"f": p / 100}))
    tr.add_events(evs)
    env = TradingEnv(action_space=BoxPortfolio([spy], -1, 1), state=State(1, window=2, max_=1e9), transmitter=tr, latency=latency,
                     steps_delay=delay, broker_fees=BrokerFees(proportional=0.001))
    out = []
    obs = env.reset(fold="f" if fold else "training-set")
    out.append((env.now(), ("obs", obs.tolist())))
    acts = np.random.default_rng(123).uniform(-1, 1, n)
    done, k = False, 0
    while not done:
        obs, r, done, info = env.step(np.array([acts[k]]))
        k += 1
        rb = info.get("_rebalancing")
        out.append((env.now(), ("obs", obs.tolist(), "r", r, "nlv", env.broker.net_liquidation_value(),
                                "hold", {str(a): b for a, b in env.broker.holdings_quantity.items()},
                                "trades", [(str(t.contract), t.quantity, t.acq_price) for t in rb.trades] if rb else None,
                                "records", len(env.broker.track_record))))
    return grid, out


def env_prefix(tier, seed):
    acc = Acc("event streams of 8 daily bars (+ quotes 30 s and 90 s after each bar, + a tabular observation per bar); for every cut "
              "timestep t all values stamped after t are scaled by 1.5; outputs with clock <= t (observations, rewards, NLV, holdings, "
              "trades, record count) are compared with ==; latencies {0,45,100} x delays {0,1} x {plain, fold, warm-up, markov}; "
              "non-trivial = distinct (setting, cut)", "8 timesteps, 1 asset")
    base = list(100 * np.exp(np.cumsum(np.random.default_rng(1 + seed).normal(0, .02, 8))))
    settings = [dict(), dict(fold=(1, 6)), dict(warm=timedelta(days=2), fold=(3, 7)), dict(markov=True, fold=(2, 7))]
    lats = (0, 45, 100) if tier != "quick" else (0, 45)
    for latency in lats:
        for delay in (0, 1):
            for si, st in enumerate(settings if tier != "quick" else settings[:3]):
                try:
                    grid, ref = run(base, latency, delay, **st)
                except Exception as ex:
                    acc.fail("C02::shell::episode_runs", "c02_lookahead", {"api": "env", "seed": seed, "latency": latency, "delay": delay, "setting": si, "cut": 0},
                             {"error": "%s: %s" % (type(ex).__name__, str(ex)[:200])})
                    continue
                for cut in range(1, len(base) - 1):
                    pert = list(base)
                    for j in range(cut + 1, len(base)):
                        pert[j] = base[j] * 1.5
                    _, alt = run(pert, latency, delay, **st)
                    t = grid[cut]
                    a = [o for o in ref if o[0] <= t]
                    b = [o for o in alt if o[0] <= t]
                    acc.case((latency, delay, si, cut), sample={"latency": latency, "delay": delay, "setting": si, "cut": cut, "prefix_len": len(a)}
                             if (latency, delay, si, cut) == (45, 1, 0, 3) else None)
                    acc.validated += 2
                    if a != b:
                        i = next((i for i, (x, y) in enumerate(zip(a, b)) if x != y), min(len(a), len(b)))
                        acc.fail("C02::shell::outputs_up_to_t_independent_of_later_data", "c02_lookahead",
                                 {"api": "env", "seed": seed, "latency": latency, "delay": delay, "setting": si, "cut": cut},
                                 {"first_difference_at_output": i, "ref": str(a[i])[:300] if i < len(a) else None,
                                  "alt": str(b[i])[:300] if i < len(b) else None})
    return acc.out()


def run_boundary(vals, latency, delay, cut, scale):
    """daily bars with extra quotes just around t + latency (sub-second offsets included); every quote stamped after
    grid[cut] + latency has its price multiplied by `scale`"""
    d = datetime(2020, 1, 6, 9)
    n = len(vals)
    grid = [d + timedelta(days=i) for i in range(n)]
    spy = ETF("SPY")
    tr = Transmitter(grid)
    limit = grid[cut] + timedelta(seconds=latency)
    evs = []
    offs = sorted(set([0.0, latency, latency + 0.001, latency + 0.4, latency + 0.999, latency + 1.0, latency + 30.0] + ([latency - 0.5] if latency >= 1 else [])))
    for i, g in enumerate(grid):
        for j, o in enumerate(offs):
            t = g + timedelta(seconds=o)
            p = vals[i] * (1 + 0.003 * j) * (scale if t > limit else 1.0)
            evs.append(EventNBBO(t, spy, p * 0.999, p * 1.001))
    tr.add_events(evs)
    env = TradingEnv(action_space=BoxPortfolio([spy], -1, 1), transmitter=tr, latency=latency, steps_delay=delay,
                     broker_fees=BrokerFees(proportional=0.001))
    env.reset()
    acts = np.random.default_rng(77).uniform(0.2, 1, n)
    out, done, k = [], False, 0
    while not done:
        _, r, done, info = env.step(np.array([acts[k]]))
        k += 1
        rb = info.get("_rebalancing")
        out.append((env.now(), [(str(t.contract), t.quantity, t.acq_price) for t in rb.trades] if rb else None, r))
    return grid, out


def run_ns(vals, cut, scale):
    """quotes loaded from a price table (Transmitter.add_prices) with nanosecond stamps: one at each timestep t and one at t + 500 ns;
    every quote stamped after grid[cut] is scaled"""
    d = pd.Timestamp("2020-01-06 09:00")
    n = len(vals)
    grid = [d + pd.Timedelta(days=i) for i in range(n)]
    spy = ETF("SPY")
    rows = {}
    for i, g in enumerate(grid):
        rows[g] = vals[i]
        t2 = g + pd.Timedelta(500, unit="ns")
        rows[t2] = vals[i] * 1.05 * (scale if t2 > grid[cut] else 1.0)
    for i, g in enumerate(grid):
        if g > grid[cut]:
            rows[g] = vals[i] * scale
    prices = pd.DataFrame({spy: pd.Series(rows)}).sort_index()
    tr = Transmitter(grid)
    tr.add_prices(prices, spread=0.002)
    env = TradingEnv(action_space=BoxPortfolio([spy], -1, 1), transmitter=tr, broker_fees=BrokerFees(proportional=0.001))
    env.reset()
    acts = np.random.default_rng(78).uniform(0.2, 1, n)
    out, done, k = [], False, 0
    while not done:
        _, r, done, info = env.step(np.array([acts[k]]))
        k += 1
        rb = info.get("_rebalancing")
        out.append(([(str(t.contract), t.quantity, t.acq_price) for t in rb.trades] if rb else None, r, env.broker.net_liquidation_value()))
    return out


def latency_boundary(tier, seed):
    acc = Acc("second clause of C02: daily bars with quotes at t+{0, L-0.5, L, L+1ms, L+0.4s, L+0.999s, L+1s, L+30s}; every quote stamped "
              "after t_cut + L is scaled by 1.7; the trades executed in the step that follows t_cut (quantity and price) are compared with ==; "
              "latencies {0, 0.5, 45} x delays {0,1} x every cut; non-trivial = distinct (latency, delay, cut)", "7 timesteps, 1 asset")
    base = list(100 * np.exp(np.cumsum(np.random.default_rng(5 + seed).normal(0, .02, 7))))
    for latency in ((0, 0.5, 45) if tier != "quick" else (0, 45)):
        for delay in (0, 1):
            for cut in range(0, len(base) - 1):
                try:
                    grid, ref = run_boundary(base, latency, delay, cut, 1.0)
                    _, alt = run_boundary(base, latency, delay, cut, 1.7)
                except Exception as ex:
                    acc.fail("C02::shell::episode_runs", "c02_lookahead", {"api": "boundary", "seed": seed, "latency": latency, "delay": delay, "cut": cut},
                             {"error": "%s: %s" % (type(ex).__name__, str(ex)[:200])})
                    continue
                # out[k] is the step from grid[k] to grid[k+1]: its trades are executed at grid[k] + latency
                acc.case((latency, delay, cut), sample={"latency": latency, "delay": delay, "cut": cut, "trades": str(ref[cut][1])[:120]} if (latency, delay, cut) == (45, 0, 2) else None)
                acc.validated += 2
                a, b = [o[1] for o in ref[:cut + 1]], [o[1] for o in alt[:cut + 1]]
                if a != b:
                    i = next(i for i, (x, y) in enumerate(zip(a, b)) if x != y)
                    acc.fail("C02::shell::trades_independent_of_data_after_t_plus_latency", "c02_lookahead",
                             {"api": "boundary", "seed": seed, "latency": latency, "delay": delay, "cut": cut},
                             {"step": i, "ref": str(a[i])[:200], "alt": str(b[i])[:200]})
    # price tables with nanosecond stamps: a quote 500 ns after a timestep belongs to the next step
    for cut in range(0, len(base) - 1):
        try:
            ref, alt = run_ns(base, cut, 1.0), run_ns(base, cut, 1.7)
        except Exception as ex:
            acc.fail("C02::shell::episode_runs", "c02_lookahead", {"api": "ns", "seed": seed, "cut": cut}, {"error": "%s: %s" % (type(ex).__name__, str(ex)[:200])})
            continue
        acc.case(("ns", cut))
        acc.validated += 2
        # out[k] is the step from grid[k] to grid[k+1]; it ends on grid[k+1]: everything reported by steps 0..cut-1 is dated <= grid[cut]
        a, b = ref[:cut], alt[:cut]
        if a != b:
            i = next(i for i, (x, y) in enumerate(zip(a, b)) if x != y)
            acc.fail("C02::shell::outputs_up_to_t_independent_of_later_data", "c02_lookahead", {"api": "ns", "seed": seed, "cut": cut},
                     {"step": i, "ref": str(a[i])[:200], "alt": str(b[i])[:200]})
    return acc.out()


def xy_gap_case(seed, transformer, window):
    """the transformer is fitted up to a date that is *not* a row of the feature table (a gap): rows after it must not matter"""
    idx = pd.bdate_range("2021-01-04", periods=40)
    r = np.random.default_rng(11 + seed)
    Y = pd.DataFrame({"A": 100 * np.exp(np.cumsum(r.normal(0, .01, 40)))}, index=idx)
    X = pd.DataFrame({"f": r.normal(0, 1, 40), "g": r.normal(2, 3, 40)}, index=idx).drop(idx[[12, 13]])
    tend = idx[12]                        # present in Y, absent from X
    cut = 12
    X2, Y2 = X.copy(), Y.copy()
    X2.loc[X2.index > idx[cut]] *= 3
    Y2.iloc[cut + 1:] *= 1.3
    a = [o for o in runxy(X, Y, tend, transformer, window) if o[0] <= idx[cut]]
    b = [o for o in runxy(X2, Y2, tend, transformer, window) if o[0] <= idx[cut]]
    return a, b


def runxy(X, Y, tend, transformer, window, folds=None):
    env = TradingEnvXY(X, Y, transformer=transformer, transformer_end=tend, window=window, steps_delay=1, spread=0.001)
    out = []
    obs = env.reset()
    out.append((env.now(), obs.tolist()))
    acts = np.random.default_rng(5).uniform(-1, 1, 80)
    k, done = 0, False
    while not done:
        obs, r, done, _ = env.step(np.array([acts[k]]))
        k += 1
        out.append((env.now(), obs.tolist(), r, env.broker.net_liquidation_value()))
    return out


def xy_prefix(tier, seed):
    acc = Acc("tabular API: 40 business days, 3 features (one starting late: 6 leading NaN rows), 1 asset; rows dated after t scaled (features x3, prices x1.3); transformer in "
              "{none, z-score, yeo-johnson} fitted up to row 10; window in {1,3}; cuts {15,25,35}; outputs up to t compared with ==; "
              "non-trivial = distinct (transformer, window, cut)", "40 rows")
    idx = pd.bdate_range("2021-01-04", periods=40)
    r = np.random.default_rng(3 + seed)
    Y = pd.DataFrame({"A": 100 * np.exp(np.cumsum(r.normal(0, .01, 40)))}, index=idx)
    X = pd.DataFrame({"f": r.normal(0, 1, 40), "g": r.normal(0, 1, 40)}, index=idx)
    # a late-starting feature ("missing values are allowed"): its leading rows are padded by the environment, and the padding
    # of a row dated <= t must not be computed from rows dated after t
    X["h"] = r.normal(1, 2, 40)
    X.iloc[:6, X.columns.get_loc("h")] = np.nan
    for transformer in (None, "z-score", "yeo-johnson"):
        for window in (1, 3):
            ref = runxy(X, Y, idx[10], transformer, window)
            for cut in ((15, 25, 35) if tier != "quick" else (15, 35)):
                t = idx[cut]
                X2, Y2 = X.copy(), Y.copy()
                X2.iloc[cut + 1:] *= 3
                Y2.iloc[cut + 1:] *= 1.3
                alt = runxy(X2, Y2, idx[10], transformer, window)
                a = [o for o in ref if o[0] <= t]
                b = [o for o in alt if o[0] <= t]
                acc.case((str(transformer), window, cut), sample={"transformer": transformer, "window": window, "cut": cut, "prefix_len": len(a)}
                         if (transformer, window) == ("z-score", 3) and cut == 15 else None)
                acc.validated += 2
                if a != b:
                    i = next((i for i, (x, y) in enumerate(zip(a, b)) if x != y), min(len(a), len(b)))
                    acc.fail("C02::shell::tabular_outputs_up_to_t_independent_of_later_rows", "c02_lookahead",
                             {"api": "xy", "seed": seed, "transformer": transformer, "window": window, "cut": cut},
                             {"first_difference_at_output": i})
    for transformer in ("z-score", "yeo-johnson"):
        for window in (1, 3):
            a, b = xy_gap_case(seed, transformer, window)
            acc.case(("gap", transformer, window))
            acc.validated += 2
            if a != b:
                acc.fail("C02::shell::tabular_outputs_up_to_t_independent_of_later_rows", "c02_lookahead",
                         {"api": "xy_gap", "seed": seed, "transformer": transformer, "window": window, "cut": 12},
                         {"prefix_lengths": [len(a), len(b)]})
    return acc.out()


def rerun(inp):
    if inp["api"] == "xy_gap":
        a, b = xy_gap_case(inp["seed"], inp["transformer"], inp["window"])
        return {"reproduced": a != b}
    if inp["api"] == "ns":
        base = list(100 * np.exp(np.cumsum(np.random.default_rng(5 + inp["seed"]).normal(0, .02, 7))))
        ref, alt = run_ns(base, inp["cut"], 1.0), run_ns(base, inp["cut"], 1.7)
        return {"reproduced": ref[:inp["cut"]] != alt[:inp["cut"]]}
    if inp["api"] == "boundary":
        res = latency_boundary("thorough", inp["seed"])
        hit = [f for f in res["failures"] if all(f["input"].get(k) == inp.get(k) for k in ("latency", "delay", "cut"))]
        return {"reproduced": bool(hit), "failing": [h["detail"] for h in hit[:1]]}
    if inp["api"] == "env":
        res = env_prefix("thorough", inp["seed"])
        hit = [f for f in res["failures"] if all(f["input"].get(k) == inp.get(k) for k in ("latency", "delay", "setting", "cut"))]
    else:
        res = xy_prefix("thorough", inp["seed"])
        hit = [f for f in res["failures"] if all(f["input"].get(k) == inp.get(k) for k in ("transformer", "window", "cut"))]
    return {"reproduced": bool(hit), "failing": [h["detail"] for h in hit[:1]]}
