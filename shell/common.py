"""Bounded shell (DESIGN §4.9): the same contracts evaluated at run time on the real code over an enumerated,
stated, bounded family of inputs.  Reported as *bounded*, never as proved."""
import warnings
warnings.filterwarnings("ignore")
import itertools, random
from datetime import datetime, timedelta
import numpy as np
from tradingenv.events import IEvent, EventNBBO
from tradingenv.features import Feature

D0 = datetime(2020, 1, 1)


class Tick(IEvent):
    """a custom market event with a unique id"""

    def __init__(self, time, uid):
        self.time = time
        self.uid = uid


class Recorder(Feature):
    """an observer subscribed to every event type; records (kind, time, uid, records so far, env clock)"""

    env = None        # class-level default: Observer.reset() re-runs __init__, which must not forget the environment

    def __init__(self):
        super().__init__()
        self.log = []

    def _rec(self, kind, event, uid=None):
        env = self.env
        n = len(env.broker.track_record) if env is not None and env.broker is not None else None
        now = env._now if env is not None else None
        self.log.append((kind, event.time, uid, n, now))

    def process_EventNBBO(self, event):
        self._rec("NBBO", event, getattr(event.contract, "symbol", None))

    def process_Tick(self, event):
        self._rec("Tick", event, event.uid)

    def process_EventReset(self, event):
        self._rec("Reset", event)

    def process_EventStep(self, event):
        self._rec("Step", event)

    def process_EventDone(self, event):
        self._rec("Done", event)

    def process_EventNewDate(self, event):
        self._rec("NewDate", event)

    def process_EventContractDiscontinued(self, event):
        self._rec("Discontinued", event, getattr(event.contract, "symbol", None))


class Acc:
    """accumulates coverage numbers and failures of one shell run"""

    def __init__(self, rule, bound):
        self.rule, self.bound = rule, bound
        self.evaluations = 0
        self.cases = set()
        self.samples = []
        self.failures = []
        self.known = []
        self.validated = 0

    def case(self, key, nontrivial=True, sample=None):
        self.evaluations += 1
        if nontrivial:
            self.cases.add(key)
        if sample is not None and len(self.samples) < 3:
            self.samples.append(sample)

    def fail(self, name, kind, inp, detail):
        self.failures.append({"name": name, "kind": kind, "input": inp, "detail": detail})

    def known_fail(self, fid, what):
        if not any(f == fid for f, _ in self.known):
            self.known.append((fid, what))

    def out(self, exhaustive=False):
        return {"evaluations": self.evaluations, "distinct_nontrivial": len(self.cases), "rule": self.rule, "bound": self.bound,
                "samples": self.samples, "failures": self.failures, "known_failures": self.known, "exhaustive": exhaustive,
                "traces_validated_against_impl": self.validated}


def rng_of(seed):
    return random.Random(seed), np.random.default_rng(seed)
