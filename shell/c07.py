"""C07 bounded shell: an independent ledger replays the recorded trades/interest against the recorded quotes; rewards are
re-computed from the records; pandas accessors of TrackRecord are compared with the records."""
from .common import *
import pandas as pd
from tradingenv.env import TradingEnv
from tradingenv.transmitter import Transmitter
from tradingenv.contracts import ETF, ES, Rate
from tradingenv.spaces import BoxPortfolio
from tradingenv.broker.fees import BrokerFees
from tradingenv.rewards import RewardSimpleReturn, RewardLogReturn, RewardPnL, LogReturn

CFGS = [  # spread, fees, rate path, latency, delay, use future, reward
    (0.0, 0.0, None, 0, 0, False, "simple"), (0.002, 0.0, None, 0, 0, True, "simple"), (0.002, 0.001, [0.03, 0.01], 0, 1, True, "log"),
    (0.004, 0.0005, [0.02], 60, 0, True, "pnl"), (0.0, 0.0, [0.05], 0, 0, False, "clipped"), (0.001, 0.0, None, 60, 2, True, "simple"),
]


def episode(seed, spread, fees, rate_path, latency, delay, use_future, reward):
    r = np.random.default_rng(seed)
    d = datetime(2020, 1, 6, 9)
    n = 10
    grid = [d + timedelta(days=i) for i in range(n)]
    spy, es = ETF("SPY"), ES(2020, 6)
    cs = [spy] + ([es] if use_future else [])
    rate = Rate("FED funds rate")
    tr = Transmitter(grid)
    evs = []
    px = {c: 100 * np.exp(np.cumsum(r.normal(0, .02, n))) for c in cs}
    for i, g in enumerate(grid):
        for c in cs:
            p = px[c][i]
            evs.append(EventNBBO(g, c, p * (1 - spread / 2), p * (1 + spread / 2)))
            p2 = p * (1 + r.normal(0, .003))
            evs.append(EventNBBO(g + timedelta(seconds=int(r.integers(1, 120))), c, p2 * (1 - spread / 2), p2 * (1 + spread / 2)))
        if rate_path:
            evs.append(EventNBBO(g, rate, rate_path[i % len(rate_path)], rate_path[i % len(rate_path)]))
    tr.add_events(evs)
    rw = {"simple": RewardSimpleReturn(), "log": RewardLogReturn(), "pnl": RewardPnL(), "clipped": LogReturn(scale=0.01, clip=1.5, risk_aversion=0.1)}[reward]
    env = TradingEnv(action_space=BoxPortfolio(cs, -1.5, 1.5), transmitter=tr, reward=rw, latency=latency, steps_delay=delay,
                     broker_fees=BrokerFees(markup=(0.0 if rate_path is None else 0.002), proportional=fees, fixed=fees * 10))
    env.reset()
    rewards, nlv_after, nows, done = [], [], [], False
    while not done:
        a = r.uniform(-1, 1, len(cs))
        _, rew, done, info = env.step(a)
        rewards.append(rew); nlv_after.append(env.broker.net_liquidation_value()); nows.append(env.now())
    env._c07_events = sorted(e.time for e in evs)
    env._c07_grid = grid
    return env, rewards, nlv_after


def check_episode(seed, cfg):
    spread, fees, rp, lat, dl, fut, reward = cfg
    env, rewards, nlv_after = episode(seed, *cfg)
    tr = env.broker.track_record
    bad = []
    times = tr._time
    if not all(a < b for a, b in zip(times, times[1:])):
        bad.append(("record_times_strictly_increasing", {"times": [str(t) for t in times[:4]]}))
    if len(tr) != len(rewards):
        bad.append(("one_record_per_decision", {"records": len(tr), "decisions": len(rewards)}))
    tol = lambda x: 1e-7 * max(1.0, abs(x))
    prev_post = None
    for k in range(len(tr)):
        rb = tr[k]
        comm = sum(t.cost_of_commissions for t in rb.trades)
        exp = -comm
        for t in rb.trades:
            c = t.contract
            q0 = rb.context_pre.nr_contracts.get(c, 0.)
            q1 = rb.context_post.nr_contracts.get(c, 0.)
            liq = lambda q: (t.bid_price if q > 0 else t.ask_price if q < 0 else (t.bid_price + t.ask_price) / 2)
            exp += c.multiplier * (q1 * liq(q1) - q0 * liq(q0) - t.quantity * t.acq_price)
            if abs(q1 - (q0 + t.quantity)) > 1e-9 and abs(q0 + t.quantity) >= 1e-7:
                bad.append(("recorded_positions_follow_trades", {"k": k, "contract": str(c), "q0": q0, "dq": t.quantity, "q1": q1}))
        d_nlv = rb.context_post.nlv - rb.context_pre.nlv
        if abs(d_nlv - exp) > tol(rb.context_pre.nlv):
            bad.append(("ledger_replays_recorded_trades", {"k": k, "post_minus_pre": d_nlv, "ledger": exp}))
            break
        # stamped with the time of the latest event processed before the execution: decision k executes during the step that starts at
        # grid[k], after the events stamped <= grid[k] + latency (computed here from the event list, not from the environment)
        if k < len(env._c07_grid):
            limit = env._c07_grid[k] + timedelta(seconds=lat)
            want_stamp = max(t for t in env._c07_events if t <= limit)
            if rb.time != want_stamp:
                bad.append(("record_stamped_with_latest_event_before_execution", {"k": k, "stamp": str(rb.time), "expected": str(want_stamp)}))
                break
    for k, r_ in enumerate(rewards):
        if k >= len(tr):
            break
        pre = tr[k].context_pre.nlv
        want = {"simple": nlv_after[k] / pre - 1, "log": float(np.log(nlv_after[k] / pre)), "pnl": nlv_after[k] - pre}.get(reward)
        if reward == "clipped":
            x = float(np.clip(np.log(nlv_after[k] / pre) / 0.01, -1.5, 1.5))
            want = x * 1.1 if x < 0 else x
        if abs(r_ - want) > 1e-9 * max(1, abs(want)):
            bad.append(("reward_is_stated_function", {"k": k, "reward": r_, "expected": want, "kind": reward}))
            break
    if rp is None and lat == 0 and reward == "simple" and len(tr):
        comp = float(np.prod([1 + r_ for r_ in rewards]))
        tot = nlv_after[-1] / tr[0].context_pre.nlv
        if abs(comp - tot) > 1e-9 * max(1, abs(tot)):
            bad.append(("simple_returns_compound", {"product": comp, "final_over_initial": tot}))
    # pandas accessors report the recorded values
    try:
        s_pre = tr.net_liquidation_value(before_rebalancing=True).iloc[:, 0]
        if len(s_pre) != len(tr) or any(abs(s_pre.iloc[k] - tr[k].context_pre.nlv) > tol(s_pre.iloc[k]) for k in range(len(tr))):
            bad.append(("accessor_nlv_matches_records", {}))
    except Exception as ex:
        bad.append(("accessor_nlv_matches_records", {"error": "%s: %s" % (type(ex).__name__, ex)}))
    return bad, {"records": len(tr), "trades": sum(len(tr[k].trades) for k in range(len(tr)))}


def records(tier, seed):
    acc = Acc("seeded random episodes (10 daily bars + an intrabar quote inside/outside the latency window) over 6 configurations "
              "(spread, fees, interest-rate path, latency, delay, spot/future mix, reward kind); an independent ledger written here "
              "replays recorded trades; non-trivial = episode with at least one executed trade", "10 timesteps, <= 2 contracts")
    nseeds = 4 if tier == "quick" else 40
    for s in range(seed, seed + nseeds):
        for ci, cfg in enumerate(CFGS):
            try:
                bad, info = check_episode(s, cfg)
            except Exception as ex:
                bad, info = [("episode_runs", {"error": "%s: %s" % (type(ex).__name__, str(ex)[:200])})], {"trades": 1}
            acc.case((s, ci), nontrivial=info["trades"] > 0, sample={"seed": s, "config": list(cfg), "info": info} if ci == 2 else None)
            acc.validated += 1
            for nm, d in bad:
                acc.fail("C07::shell::" + nm, "c07_record", {"seed": s, "config": list(cfg)}, d)
    return acc.out()


def rerun(inp):
    bad, info = check_episode(inp["seed"], tuple(inp["config"]))
    return {"reproduced": bool(bad), "failing": bad[:3]}
