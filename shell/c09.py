"""C09 bounded shell: leveraged accounts driven into insolvency on the real code (between two timesteps, inside the latency window
with and without a recovery before the end of the step, on the first decision, after several records), checked against the
property's clauses.  D6 (the step escapes through the reward instead of returning done) is a recorded finding: on that escape
the latch and the no-trade clause are still checked."""
from .common import *
from tradingenv.env import TradingEnv
from tradingenv.transmitter import Transmitter
from tradingenv.contracts import ETF
from tradingenv.spaces import BoxPortfolio
from tradingenv.broker.fees import BrokerFees
from tradingenv.broker.broker import EndOfEpisodeError
import tradingenv.rewards as rewards


def scenario(cfg):
    """price path per bar (mid), optional quote 30 s after a bar (latency 60: seen before the decision executes) and 90 s after"""
    from tradingenv.contracts import ES
    a = ES(2020, 12) if cfg.get("future") else ETF("AAA")
    n = len(cfg["bars"])
    grid = [D0 + timedelta(days=i) for i in range(n)]
    tr = Transmitter(grid)
    evs = []
    for i, g in enumerate(grid):
        evs.append(EventNBBO(g, a, cfg["bars"][i] * 0.999, cfg["bars"][i] * 1.001))
        if i in cfg.get("latent", {}):
            p = cfg["latent"][i]
            evs.append(EventNBBO(g + timedelta(seconds=30), a, p * 0.999, p * 1.001))
        if i in cfg.get("after", {}):
            p = cfg["after"][i]
            evs.append(EventNBBO(g + timedelta(seconds=90), a, p * 0.999, p * 1.001))
    tr.add_events(evs)
    env = TradingEnv(action_space=BoxPortfolio([a], -4, 4), transmitter=tr, latency=cfg.get("latency", 60), steps_delay=cfg.get("delay", 0),
                     reward=getattr(rewards, cfg.get("reward", "RewardSimpleReturn"))(), broker_fees=BrokerFees(proportional=cfg.get("fee", 0.0)))
    return env, a


def run(cfg):
    """returns the list of clause violations [(name, detail)], known findings hit, and the number of insolvent decisions seen"""
    env, a = scenario(cfg)
    env.reset()
    bad, known, seen = [], [], 0
    ended = False
    for k, w in enumerate(cfg["actions"]):
        b = env.broker
        hold0 = dict(b.holdings_quantity)
        nrec0 = len(b.track_record)
        # NLV at the moment the decision executes = after the latent quotes of this step; computed independently from the holdings
        pending = cfg.get("latent", {}).get(k) if cfg.get("latency", 60) >= 30 else None
        price = pending if pending is not None else (cfg["after"].get(k - 1) if (k - 1) in cfg.get("after", {}) else cfg["bars"][k])
        q = hold0.get(a, 0.0)
        cash = hold0.get(b.base_currency, 0.0)
        if cfg.get("future"):
            # a margined position: the account holds cash + posted margin, and the variation since the last mark is settled on marking
            marg = dict(b.holdings_margins).get(a, 0.0)
            last = b._last_marking_to_market_price.get(a, price)
            liq = price * 0.999 if q > 0 else price * 1.001
            nlv_dec = cash + marg + q * a.multiplier * (liq - last)
        else:
            nlv_dec = cash + q * (price * 0.999 if q > 0 else price * 1.001)
        insolvent = nlv_dec <= 0
        if ended:
            try:
                env.step(np.array([w]))
                bad.append(("ended_episode_refuses_steps", {"step": k, "outcome": "accepted"}))
            except EndOfEpisodeError:
                pass
            if dict(env.broker.holdings_quantity) != hold0 or len(env.broker.track_record) != nrec0:
                bad.append(("ended_episode_refuses_steps", {"step": k, "outcome": "state changed"}))
            continue
        raised = None
        try:
            _, _, done, _ = env.step(np.array([w]))
        except (EndOfEpisodeError, IndexError) as ex:
            raised, done = ex, None
        if insolvent:
            seen += 1
            if dict(b.holdings_quantity).get(a, 0.0) != q or len(b.track_record) != nrec0:
                bad.append(("insolvent_decision_executes_nothing", {"step": k, "nlv_at_decision": nlv_dec, "position_before": q,
                                                                    "position_after": dict(b.holdings_quantity).get(a, 0.0)}))
            if not env._done:
                bad.append(("insolvent_decision_ends_the_episode", {"step": k, "nlv_at_decision": nlv_dec, "returned_done": done,
                                                                    "raised": type(raised).__name__ if raised else None}))
            if raised is not None:
                known.append("D6")
            elif done is not True:
                bad.append(("insolvent_decision_ends_the_episode", {"step": k, "nlv_at_decision": nlv_dec, "returned_done": done}))
            ended = True
        elif raised is not None:
            # solvent at the decision, insolvent when the reward values the account at the end of the step: D6 as well
            known.append("D6")
            ended = bool(env._done)          # not latched: the next decision arrives at an insolvent account and must be refused
        else:
            ended = bool(done)
        # valuation: signals end-of-episode instead of returning a non-positive NLV unless asked not to
        v = env.broker.net_liquidation_value(False)
        try:
            v2 = env.broker.net_liquidation_value()
            if v <= 0:
                bad.append(("valuation_signals_insolvency", {"step": k, "nlv": v, "returned": v2}))
        except EndOfEpisodeError:
            if v > 0:
                bad.append(("valuation_signals_insolvency", {"step": k, "nlv": v, "raised_although_solvent": True}))
    return bad, known, seen


def configs(tier):
    out = []
    for reward in ("RewardSimpleReturn", "RewardPnL", "LogReturn"):
        for delay in (0, 1):
            # crash between two bars: the next decision arrives insolvent
            out.append(dict(bars=[100, 100, 60, 60, 60], actions=[3.0, 3.0, 1.0, 0.5, 0.5], reward=reward, delay=delay))
            # crash inside the latency window, recovery before the end of the same step (the reward sees a solvent account)
            out.append(dict(bars=[100, 100, 100, 100, 100], latent={2: 60}, after={2: 100}, actions=[3.0, 3.0, 1.0, 0.5, 0.5], reward=reward, delay=delay))
            # crash inside the latency window, no recovery
            out.append(dict(bars=[100, 100, 100, 55, 55], latent={2: 60}, actions=[3.0, 3.0, 1.0, 0.5, 0.5], reward=reward, delay=delay))
            # short squeeze
            out.append(dict(bars=[100, 100, 150, 150, 150], actions=[-3.0, -3.0, 1.0, 0.5, 0.5], reward=reward, delay=delay))
            # a leveraged long future whose bid collapses to exactly zero (a quote the contract accepts), and a plain crash
            out.append(dict(bars=[100, 100, 0.0, 0.0, 0.0], actions=[2.0, 2.0, 0.5, 0.5, 0.5], reward=reward, delay=delay, future=True, latency=0))
            out.append(dict(bars=[100, 100, 40, 40, 40], actions=[2.0, 2.0, 0.5, 0.5, 0.5], reward=reward, delay=delay, future=True, latency=0))
            if tier != "quick":
                out.append(dict(bars=[100, 100, 100, 100, 100, 100], latent={3: 50}, after={3: 101}, actions=[3.5, 3.5, 3.5, 1.0, 0.2, 0.2], reward=reward, delay=delay, fee=0.001))
                out.append(dict(bars=[100, 66, 66, 66], actions=[3.0, 1.0, 1.0, 1.0], reward=reward, delay=delay, latency=0))
    return out


def insolvency(tier, seed):
    acc = Acc("leveraged single-asset accounts (|w| up to 3.5) x {crash between bars, crash inside the latency window with / without recovery "
              "in the same step, short squeeze, first decision after a crash} x 3 rewards x delays {0,1}; clauses: an insolvent decision "
              "executes nothing and ends the episode, further steps are refused and change nothing, valuation raises iff NLV <= 0; "
              "NLV at the decision recomputed from holdings and the last quote within latency; non-trivial = configuration in which an "
              "insolvent decision actually occurred", "<= 6 timesteps, 1 asset")
    for cfg in configs(tier):
        try:
            bad, known, seen = run(cfg)
        except Exception as ex:
            acc.fail("C09::shell::episode_runs", "c09_insolvency", {"cfg": cfg}, {"error": "%s: %s" % (type(ex).__name__, str(ex)[:200])})
            continue
        acc.case(tuple(sorted((k, str(v)) for k, v in cfg.items())), nontrivial=bool(seen),
                 sample={"config": cfg, "insolvent_decisions": seen} if seen else None)
        acc.validated += 1
        for fid in set(known):
            acc.known_fail(fid, "step escapes through the reward on an insolvent account (bounded shell, configuration %s)" % cfg.get("reward"))
        for name, detail in bad:
            acc.fail("C09::shell::" + name, "c09_insolvency", {"cfg": cfg}, detail)
    return acc.out()


def rerun(inp):
    bad, known, seen = run(inp["cfg"])
    return {"reproduced": bool(bad), "violations": bad[:3], "insolvent_decisions": seen}
