"""C10 bounded shell: reproducibility after reset / on a fresh environment, and isolation of two environments in one
process under interleavings (bit-identical traces)."""
from .common import *
import pandas as pd
from tradingenv.env import TradingEnv
from tradingenv.transmitter import Transmitter
from tradingenv.contracts import ETF, ES, FutureChain, Cash
from tradingenv.spaces import BoxPortfolio
from tradingenv.broker.fees import BrokerFees
from tradingenv.features import Feature
import gymnasium


class LastPrices(Feature):
    """a feature with history: the last two mid prices it has seen"""

    def __init__(self, contract):
        super().__init__(space=gymnasium.spaces.Box(-np.inf, np.inf, (2,), np.float64), name="last_prices")
        self.contract = contract
        self.seen = [0.0, 0.0]

    def process_EventNBBO(self, event):
        if event.contract == self.contract:
            self.seen = [self.seen[1], float(event.mid_price)]

    def parse(self):
        return np.array(self.seen, dtype=np.float64)


def make_env(kind, variant=0):
    """environment factories; `variant` shifts dates/prices so that two environments differ"""
    if kind == "spot":
        a, b = ETF("AAA"), ETF("BBB")
        grid = [D0 + timedelta(days=i + 40 * variant) for i in range(8)]
        r = np.random.default_rng(100 + variant)
        tr = Transmitter(grid)
        pa, pb = 100.0, 50.0
        for g in grid:
            pa *= float(1 + r.normal(0, 0.02)); pb *= float(1 + r.normal(0, 0.02))
            tr.add_events([EventNBBO(g, a, pa * 0.999, pa * 1.001), EventNBBO(g, b, pb * 0.999, pb * 1.001)])
        return TradingEnv(action_space=BoxPortfolio([a, b], -1, 1), state=[LastPrices(a)], transmitter=tr,
                          broker_fees=BrokerFees(proportional=0.001, fixed=0.01), latency=0, steps_delay=variant % 2)
    if kind == "spot_markov":
        # markov reset (what TradingEnvXY builds for window=1): reset hands the transmitter's own partition lists to the environment
        a = ETF("AAA")
        grid = [D0 + timedelta(days=i + 40 * variant) for i in range(8)]
        r = np.random.default_rng(300 + variant)
        tr = Transmitter(grid, markov_reset=True)
        p = 100.0
        for g in grid:
            p *= float(1 + r.normal(0, 0.02))
            tr.add_events([EventNBBO(g, a, p * 0.999, p * 1.001), EventNBBO(g + timedelta(seconds=10), a, p * 1.01 * 0.999, p * 1.01 * 1.001)])
        return TradingEnv(action_space=BoxPortfolio([a], -1, 1), state=[LastPrices(a)], transmitter=tr, latency=variant * 30,
                          steps_delay=variant % 2)
    if kind == "spot_latency":
        a = ETF("AAA")
        grid = [D0 + timedelta(hours=i + 30 * variant) for i in range(8)]
        r = np.random.default_rng(200 + variant)
        tr = Transmitter(grid)
        p = 100.0
        for g in grid:
            p *= float(1 + r.normal(0, 0.02))
            tr.add_events([EventNBBO(g, a, p * 0.999, p * 1.001),
                           EventNBBO(g + timedelta(seconds=10), a, p * 1.02 * 0.999, p * 1.02 * 1.001),     # inside the latency window
                           EventNBBO(g + timedelta(seconds=90), a, p * 0.98 * 0.999, p * 0.98 * 1.001)])
        return TradingEnv(action_space=BoxPortfolio([a], -1, 1), state=[LastPrices(a)], transmitter=tr, latency=30, steps_delay=variant % 2)
    if kind in ("chain", "chain_latency"):
        chain = FutureChain(ES, "2019-03", "2020-06")
        start = ["2019-02-20", "2019-08-20"][variant % 2]
        grid = list(pd.date_range(start, periods=8, freq="7D").to_pydatetime())
        tr = Transmitter(grid)
        for c in chain.contracts:
            for i, g in enumerate(grid):
                if g < c.expiry:
                    tr.add_events([EventNBBO(g, c, 3000 + 5 * i + 20 * variant, 3001 + 5 * i + 20 * variant)])
        return TradingEnv(action_space=BoxPortfolio([chain], -2, 2), transmitter=tr, state=[LastPrices(chain.contracts[0])],
                          latency=(60 if kind == "chain_latency" else 0))
    raise ValueError(kind)


def actions_for(kind, variant, n):
    r = np.random.default_rng(7 + variant)
    dim = 2 if kind == "spot" else 1
    return [np.round(r.uniform(-0.8, 0.8, dim), 3) for _ in range(n)]


def snap(env, out):
    obs, reward, done = out[0], out[1], out[2]
    b = env.broker
    hold = {str(k): repr(float(v)) for k, v in sorted(b.holdings_quantity.items(), key=lambda kv: str(kv[0])) if v != 0}
    rec = env.broker.track_record
    trades = []
    if len(rec):
        last = rec[-1]
        trades = [(str(t.contract), repr(float(t.quantity)), repr(float(t.acq_price))) for t in (last.trades or [])]
    o = None
    try:
        o = {k: np.asarray(v).tolist() for k, v in obs.items()} if isinstance(obs, dict) else None
    except Exception:
        o = None
    return (repr(float(reward)), bool(done), hold, repr(float(b.net_liquidation_value(False))), trades, len(rec), o)


def snap_reset(env, obs):
    """the observation returned by reset and the order-book history it left (what the replayed warm-up events produced)"""
    o = None
    try:
        o = {k: np.asarray(v).tolist() for k, v in obs.items()} if isinstance(obs, dict) else np.asarray(obs).tolist()
    except Exception:
        o = None
    books = {str(k): len(b.history["bid_price"]) for k, b in sorted(env.exchange._books.items(), key=lambda kv: str(kv[0]))}
    return ("reset", False, books, repr(float(env.broker.net_liquidation_value(False))), [], 0, o)


def run_alone(kind, variant, n, prefix=None):
    """trace of n steps after reset; prefix: None | ('complete',) | ('abandon', k) | ('error',) earlier episode on the same env"""
    env = make_env(kind, variant)
    acts = actions_for(kind, variant, n)
    if prefix is not None:
        env.reset()
        if prefix[0] == "complete":
            done = False
            i = 0
            while not done:
                _, _, done, _ = env.step(acts[i % len(acts)] * 0.5)
                i += 1
        elif prefix[0] == "abandon":
            for i in range(prefix[1]):
                env.step(acts[-1 - i] * 0.7)
        elif prefix[0] == "length":
            # the earlier episode was a sampled window of the fold (explicit episode_length), abandoned after one step
            np.random.seed(prefix[1])
            env.reset(episode_length=3)
            env.step(acts[0] * 0.3)
        elif prefix[0] == "error":
            env.step(acts[0])
            try:
                env.step(np.array([np.nan] * len(acts[0])))
            except ValueError:
                pass
    tr = [snap_reset(env, env.reset())]
    for a in acts:
        try:
            out = env.step(a)
        except Exception as ex:                 # the code under test raised: part of the observable trace
            tr.append(("raised", type(ex).__name__, str(ex)[:80]))
            break
        tr.append(snap(env, out))
        if out[2]:
            break
    return tr


def interleave(k1, v1, k2, v2, n, schedule):
    e1, e2 = make_env(k1, v1), make_env(k2, v2)
    a1, a2 = actions_for(k1, v1, n), actions_for(k2, v2, n)
    t1, t2 = [], []
    i1 = i2 = 0
    r1 = r2 = False
    for who in schedule:
        if who == 0:
            if not r1:
                t1.append(snap_reset(e1, e1.reset())); r1 = True
            elif i1 < len(a1) and not (t1 and t1[-1][1]):
                t1.append(snap(e1, e1.step(a1[i1]))); i1 += 1
        else:
            if not r2:
                t2.append(snap_reset(e2, e2.reset())); r2 = True
            elif i2 < len(a2) and not (t2 and t2[-1][1]):
                t2.append(snap(e2, e2.step(a2[i2]))); i2 += 1
    return t1, t2


def first_diff(a, b):
    for i, (x, y) in enumerate(zip(a, b)):
        if x != y:
            return {"step": i, "alone": x[:5], "other": y[:5]}
    if len(a) != len(b):
        return {"lengths": [len(a), len(b)]}
    return None


def isolation(tier, seed):
    acc = Acc("reproducibility: reset after {completed, abandoned(k), errored, sampled-window (explicit episode_length)} episodes and a fresh identical environment vs a fresh run; "
              "(also with a markov-reset transmitter); isolation: two environments (spot with fees/delay/feature history; ES futures chain at different clocks) under "
              "round-robin, blocked and seeded random interleavings of reset/step calls; traces compared with == on repr(float); "
              "non-trivial = distinct (configuration, prefix / schedule)", "<= 7 steps per environment, 2 environments")
    n = 5 if tier == "quick" else 7
    base = {}
    for kind in ("spot", "chain", "spot_latency", "chain_latency", "spot_markov"):
        for v in (0, 1):
            base[(kind, v)] = run_alone(kind, v, n)
    prefixes = [("complete",), ("abandon", 2), ("error",), ("length", 1)] + ([("abandon", 1), ("abandon", 4), ("length", 2)] if tier != "quick" else [])
    for (kind, v), ref in base.items():
        again = run_alone(kind, v, n)
        acc.case(("fresh", kind, v), sample={"config": [kind, v], "first_step": ref[0][:4]} if (kind, v) == ("spot", 0) else None)
        acc.validated += 1
        d = first_diff(ref, again)
        if d:
            acc.fail("C10::shell::fresh_environment_reproduces", "c10_isolation", {"what": "fresh", "kind": kind, "variant": v, "n": n}, d)
        for p in prefixes:
            got = run_alone(kind, v, n, prefix=p)
            acc.case(("reset", kind, v, p))
            acc.validated += 1
            d = first_diff(ref, got)
            if d:
                acc.fail("C10::shell::reset_reproduces", "c10_isolation", {"what": "reset", "kind": kind, "variant": v, "n": n, "prefix": list(p)}, d)
    r, _ = rng_of(seed)
    pairs = [(("chain", 0), ("chain", 1)), (("spot", 0), ("chain", 1)), (("spot", 0), ("spot", 1)),
             (("chain_latency", 0), ("chain_latency", 1)), (("spot_latency", 0), ("chain_latency", 1))]
    scheds = {"round_robin": [0, 1] * (n + 2), "blocked": [0] * (n + 2) + [1] * (n + 2), "reverse_blocked": [1] * (n + 2) + [0] * (n + 2)}
    for i in range(2 if tier == "quick" else 8):
        s = [0] * (n + 2) + [1] * (n + 2)
        r.shuffle(s)
        scheds["random%d" % i] = s
    for (c1, c2) in pairs:
        for sname, s in scheds.items():
            t1, t2 = None, None
            err = None
            try:
                t1, t2 = interleave(c1[0], c1[1], c2[0], c2[1], n, s)
            except Exception as ex:
                err = "%s: %s" % (type(ex).__name__, ex)
            acc.case(("interleave", c1, c2, sname))
            acc.validated += 2
            inp = {"what": "interleave", "env1": list(c1), "env2": list(c2), "n": n, "schedule": s}
            if err:
                acc.fail("C10::shell::interleaved_environments_isolated", "c10_isolation", inp, {"raised": err})
                continue
            d1, d2 = first_diff(base[c1], t1), first_diff(base[c2], t2)
            if d1 or d2:
                acc.fail("C10::shell::interleaved_environments_isolated", "c10_isolation", inp, {"env1": d1, "env2": d2, "schedule": sname})
    # D12: environments built without an explicit state share one default IState object
    a, b = ETF("AAA"), ETF("BBB")
    grid = [D0 + timedelta(days=i) for i in range(4)]
    def plain():
        tr = Transmitter(grid)
        for g in grid:
            tr.add_events([EventNBBO(g, a, 10, 10)])
        return TradingEnv(action_space=BoxPortfolio([a]), transmitter=tr)
    ea, eb = plain(), plain()
    oa = ea.reset(); ob = eb.reset()
    acc.case(("default_state",))
    if ea.state is eb.state or (hasattr(oa, "broker") and getattr(oa, "broker", None) is eb.broker):
        acc.known_fail("D12", "two environments built without `state` share one IState; after eb.reset() ea's observation exposes eb's broker")
    return acc.out()


def rerun(inp):
    n = inp["n"]
    if inp["what"] in ("fresh", "reset"):
        ref = run_alone(inp["kind"], inp["variant"], n)
        got = run_alone(inp["kind"], inp["variant"], n, prefix=tuple(inp["prefix"]) if inp["what"] == "reset" else None)
        d = first_diff(ref, got)
        return {"reproduced": bool(d), "diff": d}
    c1, c2 = tuple(inp["env1"]), tuple(inp["env2"])
    b1, b2 = run_alone(c1[0], c1[1], n), run_alone(c2[0], c2[1], n)
    try:
        t1, t2 = interleave(c1[0], c1[1], c2[0], c2[1], n, inp["schedule"])
    except Exception as ex:
        return {"reproduced": True, "raised": "%s: %s" % (type(ex).__name__, ex)}
    d1, d2 = first_diff(b1, t1), first_diff(b2, t2)
    return {"reproduced": bool(d1 or d2), "env1": d1, "env2": d2}
