"""re-run a failing input recorded by the bounded shell against the real code of the current tree"""
import json


def rerun(rec):
    kind = rec.get("kind")
    inp = rec.get("input")
    mod = {"c04_delivery": "c04", "c10_isolation": "c10", "c19_calendar": "c19", "c15_folds": "c15", "c16_metrics": "c16",
           "c18_tabular": "c18", "c07_record": "c07", "c02_lookahead": "c02", "c09_insolvency": "c09", "c14_books": "c14", "c08_timing": "c08", "c11_chain": "c11",
           "runtime_contract": "runtime"}.get(kind)
    if mod is None:
        print("no re-run function for kind %r" % kind)
        print(json.dumps(rec.get("detail"), indent=1, default=str))
        return 0
    import importlib
    m = importlib.import_module("shell." + mod)
    out = m.rerun(inp)
    print(json.dumps(out, indent=1, default=str))
    print("REPRODUCED" if out.get("reproduced") else "not reproduced on this tree")
    return 1 if out.get("reproduced") else 0
