"""C16 bounded shell: each metric against an independent numpy oracle, scale invariance, rejection of corrupted series."""
from .common import *
import pandas as pd
import tradingenv.metrics  # noqa: registers the accessors on pandas objects


def oracle(x, dates, rf=None):
    df = {}
    for d, v in zip(dates, x):
        df[d.date()] = v
    lv = np.array(list(df.values()))
    r = lv[1:] / lv[:-1] - 1
    years = (dates[-1] - dates[0]).days / 365
    out = {}
    out["cagr"] = (lv[-1] / lv[0]) ** (1 / years) - 1
    out["vol"] = np.sqrt(252) * np.std(r, ddof=1)
    cm = np.maximum.accumulate(lv)
    dd = lv / cm - 1
    out["mdd"] = dd.min()
    out["martin"] = np.sqrt(np.mean(dd ** 2))
    out["var"] = np.quantile(r, 0.025)
    out["es"] = r[r <= out["var"]].mean()
    neg, pos = r[r < 0], r[r > 0]
    out["dvol"] = np.sqrt(252) * np.std(neg, ddof=1) if len(neg) > 1 else np.nan
    out["uvol"] = np.sqrt(252) * np.std(pos, ddof=1) if len(pos) > 1 else np.nan
    out["sharpe"] = out["cagr"] / out["vol"]
    out["sortino"] = out["cagr"] / out["dvol"]
    out["calmar"] = out["cagr"] / -out["mdd"]
    out["martin_ratio"] = out["cagr"] / out["martin"]
    return out, dd, years, lv


def measured(s):
    return dict(cagr=s.cagr(), vol=s.volatility(), mdd=s.max_drawdown(), martin=s.martin_risk(), var=s.value_at_risk(),
                es=s.expected_shortfall(), dvol=s.downside_volatility(), uvol=s.upside_volatility(), sharpe=s.sharpe_ratio(),
                sortino=s.sortino_ratio(), calmar=s.calmar_ratio(), martin_ratio=s.martin_ratio())


def same(a, b):
    return bool(np.isclose(a, b, rtol=1e-9, atol=1e-12) or (np.isnan(a) and np.isnan(b)) or (np.isinf(a) and np.isinf(b) and a * b > 0))


def make_series(r, trial):
    L = int(r.integers(3, 200))
    intraday = trial % 3 == 0
    if intraday:
        dates = pd.DatetimeIndex(sorted(pd.Timestamp("2020-01-01") + pd.to_timedelta(np.sort(r.choice(24 * 60 * L, size=L * 2, replace=False)), unit="m")))
        if trial % 9 == 6:
            # sparse intraday: business-daily closes with an occasional extra midday print (fewer observations than calendar days)
            days = pd.bdate_range("2020-01-01", periods=max(L // 2, 4)) + pd.Timedelta(hours=16)
            extra = [d - pd.Timedelta(hours=4) for i, d in enumerate(days) if i % 5 == 2]
            dates = pd.DatetimeIndex(sorted(list(days) + extra))
        if trial % 6 == 3:
            # a timezone-aware intraday index (fixed offset, no DST): the calendar day of an observation is its local day
            dates = dates.tz_localize(["Etc/GMT-10", "Etc/GMT+9"][(trial // 6) % 2])
    else:
        dates = pd.bdate_range("2020-01-01", periods=L)
    inc = r.normal(0, .02, len(dates))
    if trial % 4 == 1:
        # flat days (two consecutive identical levels): a return of exactly zero is neither an upside nor a downside return
        inc[r.random(len(dates)) < 0.25] = 0.0
    x = 100 * np.exp(np.cumsum(inc))
    return pd.Series(x, index=dates), intraday


CORRUPT_METHODS = ["simple_returns", "cagr", "volatility", "drawdown", "max_drawdown", "value_at_risk", "expected_shortfall",
                   "downside_volatility", "upside_volatility", "sharpe_ratio", "sortino_ratio", "calmar_ratio", "martin_ratio", "martin_risk"]


def corruptions(s):
    cor = {}
    t = s.copy(); t.iloc[5] = np.nan; cor["nan"] = t
    t = s.copy(); t.iloc[5] = 0; cor["zero"] = t
    t = s.copy(); t.iloc[5] = -1; cor["negative"] = t
    t = s.copy(); t.index = list(s.index[:5]) + [s.index[4]] + list(s.index[6:]); cor["duplicate_index"] = t
    cor["unsorted"] = s.iloc[::-1]
    t = s.copy(); t.index = range(len(s)); cor["integer_index"] = t
    return cor


def check_series(seed, trial):
    r = np.random.default_rng([seed, trial])
    s, intraday = make_series(r, trial)
    dates = list(s.index)
    if (dates[-1] - dates[0]).days < 1 or len(set(d.date() for d in dates)) < 3:
        return None, None
    o, dd, years, lv = oracle(s.values, dates)
    got = measured(s)
    bad = []
    for k in o:
        if not same(o[k], got[k]):
            bad.append(("metric_equals_definition[%s]" % k, {"oracle": float(o[k]), "reported": float(got[k]), "intraday": intraday, "len": len(s)}))
            break
    if not same((1 + got["cagr"]) ** years, lv[-1] / lv[0]):
        bad.append(("cagr_compounds_to_total_return", {"lhs": float((1 + got["cagr"]) ** years), "rhs": float(lv[-1] / lv[0])}))
    d = s.drawdown()
    dv = np.asarray(d).ravel()
    if not ((dv > -1).all() and (dv <= 0).all()):
        bad.append(("drawdown_range", {"min": float(dv.min()), "max": float(dv.max())}))
    lvl = np.asarray(s.level()).ravel() if hasattr(s, "level") else None
    if lvl is not None and len(lvl) == len(dv):
        highs = lvl >= np.maximum.accumulate(lvl)
        if not np.all(dv[highs] == 0):
            bad.append(("drawdown_zero_at_running_highs", {}))
    for kf in (1e-6, 3.7, 1e6):
        g2 = measured(s * kf)
        for k in g2:
            if not same(g2[k], got[k]):
                bad.append(("scale_invariant[%s]" % k, {"factor": kf, "reported": float(got[k]), "scaled": float(g2[k])}))
                break
    # DataFrame with two columns: each column is measured as it is measured alone
    other, _ = make_series(np.random.default_rng([seed, trial, 1]), 1)
    other = pd.Series(np.interp(np.arange(len(s)), np.arange(len(other)), other.values) if len(other) else s.values, index=s.index) * 0.5
    df = pd.DataFrame({"a": s, "b": other})
    try:
        for name, fn in (("expected_shortfall", lambda z: z.expected_shortfall()), ("value_at_risk", lambda z: z.value_at_risk()),
                         ("volatility", lambda z: z.volatility()), ("max_drawdown", lambda z: z.max_drawdown())):
            col = fn(df)
            for cname in ("a", "b"):
                alone = fn(df[cname])
                v = col[cname] if hasattr(col, "__getitem__") else col
                if not same(float(v), float(alone)):
                    bad.append(("dataframe_column_equals_series[%s]" % name, {"column": cname, "in_frame": float(v), "alone": float(alone)}))
    except Exception as ex:
        bad.append(("dataframe_column_equals_series", {"error": "%s: %s" % (type(ex).__name__, ex)}))
    return bad, {"len": len(s), "intraday": intraday}


def check_corruptions(seed):
    r = np.random.default_rng(seed)
    s = pd.Series(100 * np.exp(np.cumsum(r.normal(0, .02, 30))), index=pd.bdate_range("2020-01-01", periods=30))
    bad = []
    for mode in ("fresh", "after_measuring_valid"):
        base = s.copy()
        if mode == "after_measuring_valid":
            base.cagr(); base.volatility()          # a valid measurement first, then corrupt that object / its copies
        for name, t in corruptions(base).items():
            for m in CORRUPT_METHODS:
                try:
                    getattr(t, m)()
                    bad.append(("corrupted_series_rejected", {"corruption": name, "metric": m, "mode": mode}))
                except Exception:
                    pass
            for a, b, w in ((t, s, "self"), (s, t, "benchmark")):
                try:
                    a.tracking_error(b)
                    bad.append(("corrupted_series_rejected", {"corruption": name, "metric": "tracking_error(%s corrupted)" % w, "mode": mode}))
                except Exception:
                    pass
    return bad


def metrics(tier, seed):
    acc = Acc("seeded valid level series (length 3..199, daily or intraday with several observations per day): 12 metrics vs an "
              "independent numpy oracle, (1+CAGR)^years = last/first, drawdown in (-1,0] and 0 at running highs, scale factors "
              "{1e-6, 3.7, 1e6}, two-column DataFrame vs each column alone; six single-defect corruptions x 14 metrics + tracking "
              "error, on a fresh series and on one that was measured while valid; non-trivial = distinct valid series", "series length < 200")
    n = 40 if tier == "quick" else 400
    for trial in range(n):
        bad, info = check_series(seed, trial)
        if bad is None:
            continue
        acc.case((seed, trial), sample={"trial": trial, "info": info} if trial == 1 else None)
        acc.validated += 1
        for nm, d in bad[:3]:
            acc.fail("C16::shell::" + nm.split("[")[0], "c16_metrics", {"case": "series", "seed": seed, "trial": trial}, dict(d, check=nm))
    bad = check_corruptions(seed)
    acc.case(("corruptions", seed))
    for nm, d in bad[:5]:
        acc.fail("C16::shell::" + nm, "c16_metrics", {"case": "corruptions", "seed": seed}, d)
    return acc.out()


def rerun(inp):
    if inp["case"] == "series":
        bad, _ = check_series(inp["seed"], inp["trial"])
    else:
        bad = check_corruptions(inp["seed"])
    return {"reproduced": bool(bad), "failing": (bad or [])[:3]}
