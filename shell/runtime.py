"""Run-time contracts on the real broker code (bounded stand-in with real failing inputs): the sidecar contracts' clauses,
written against the concrete view, are evaluated at every call of Broker.transact / accrued_interest / marking_to_market /
net_liquidation_value / Rebalancing.make_trades / Broker.rebalance during seeded multi-step histories over a mix of spot,
futures and user-defined contracts (multiplier != 1), spreads, fees, thresholds, whole lots, interest and missing quotes."""
from .common import *
import math
from contracts import _spec as S
from tradingenv.broker.broker import Broker, EndOfEpisodeError, SECONDS_IN_YEAR
from tradingenv.broker.rebalancing import Rebalancing
from tradingenv.broker.fees import BrokerFees
from tradingenv.broker.trade import Trade
from tradingenv.exchange import Exchange
from tradingenv.contracts import Cash, Rate, ETF, ES, ZN, Asset
from tradingenv.events import EventContractDiscontinued


class Lot(Asset):
    multiplier = 7.0


T0_ = datetime(2020, 1, 1)
CS = [ETF("A"), ETF("B"), ES(2020, 6), ZN(2020, 6), Lot("L")]
RATE = Rate("FED funds rate")


def close(a, b, scale=1.0):
    return abs(a - b) <= 1e-7 * max(1.0, abs(a), abs(b), abs(scale))


def equity(v):
    return sum(S.eq_term(v, k) for k in v.keys())


class Monitor:
    """wraps the real methods; every violated clause is recorded with the call's concrete pre-state"""

    def __init__(self):
        self.viol = []
        self.calls = {"transact": 0, "accrued_interest": 0, "marking_to_market": 0, "net_liquidation_value": 0, "make_trades": 0, "rebalance": 0}

    def flag(self, name, detail):
        if len(self.viol) < 20:
            self.viol.append((name, detail))

    def install(self):
        mon = self
        o_tr, o_ai, o_mtm, o_nlv, o_mt = Broker.transact, Broker.accrued_interest, Broker.marking_to_market, Broker.net_liquidation_value, Rebalancing.make_trades
        self._orig = (o_tr, o_ai, o_mtm, o_nlv, o_mt)

        def transact(b, trade):
            mon.calls["transact"] += 1
            vo = S.ConcreteBrokerView(b, S.ConcreteBrokerView.snap(b))
            c = trade.contract
            e0, q0, dq = equity(vo), vo.qty(c), trade.quantity
            q1 = q0 + dq
            expected = -trade.cost_of_commissions + c.multiplier * (q1 * S.liq(vo, c, q1) - q0 * S.liq(vo, c, q0) - dq * trade.acq_price)
            o_tr(b, trade)
            vn = S.ConcreteBrokerView(b)
            dust = q1 != 0 and abs(q1) < b._epsilon
            if not dust and not close(equity(vn) - e0, expected, e0):
                mon.flag("Broker.transact::nlv_delta", {"contract": str(c), "q0": q0, "dq": dq, "bid": vo.bid(c), "ask": vo.ask(c),
                                                         "expected": expected, "actual": equity(vn) - e0})
            if not close(vn.margin(c), S.target(vn, c)):
                mon.flag("Broker.transact::margin_at_target", {"contract": str(c), "margin": vn.margin(c), "target": S.target(vn, c)})
            for k in vn.keys():
                if k != c and k != b.base_currency and (vn.qty(k) != vo.qty(k) or vn.margin(k) != vo.margin(k)):
                    mon.flag("Broker.transact::frame_others", {"traded": str(c), "changed": str(k)})
                if not S.wf_at(vn, k):
                    mon.flag("Broker.transact::wf_preserved", {"key": str(k), "margin": vn.margin(k), "qty": vn.qty(k)})

        def accrued_interest(b, now, accrue=False):
            mon.calls["accrued_interest"] += 1
            cash0, last0 = b._holdings_quantity[b.base_currency], b._last_accrual
            margins0 = dict(b._holdings_margins)
            bk = b.exchange[b.fees.interest_rate]
            r, m = bk.mid_price, b.fees.markup
            res = o_ai(b, now, accrue)
            if last0 is not None and now >= last0:
                y = (now - last0).total_seconds() / (365 * 24 * 3600)
                if cash0 > 0:
                    want = max(0.0, cash0 * ((1 + r - m) ** y - 1))
                elif cash0 < 0:
                    want = cash0 * ((1 + r + m) ** y - 1)
                else:
                    want = 0.0
                if not close(res, want, cash0 * 1e-3):
                    mon.flag("Broker.accrued_interest::formula", {"cash": cash0, "rate": r, "markup": m, "years": y, "reported": float(res), "expected": want})
                cash1 = b._holdings_quantity[b.base_currency]
                if accrue and not close(cash1, cash0 + want, cash0):
                    mon.flag("Broker.accrued_interest::credited_once", {"cash0": cash0, "cash1": cash1, "interest": want})
                if not accrue and (cash1 != cash0 or b._last_accrual != last0):
                    mon.flag("Broker.accrued_interest::query_changes_nothing", {"cash0": cash0, "cash1": cash1})
            if dict(b._holdings_margins) != margins0:
                mon.flag("Broker.accrued_interest::only_cash_moves", {})
            return res

        def marking_to_market(b, contract=None):
            mon.calls["marking_to_market"] += 1
            vo = S.ConcreteBrokerView(b, S.ConcreteBrokerView.snap(b))
            e0 = equity(vo)
            o_mtm(b, contract)
            vn = S.ConcreteBrokerView(b)
            scope = list(vo._mg) if contract is None else [contract]
            ok_quotes = all(not (vo.qty(k) != 0 and S.liq_nan(vo, k, vo.qty(k))) for k in vo.keys())
            if ok_quotes and not close(equity(vn), e0, e0):
                mon.flag("Broker.marking_to_market::equity_preserved", {"before": e0, "after": equity(vn), "contract": str(contract)})
            for k in scope:
                if k.margin_requirement != 0 and vo.has_last(k) and not S.liq_nan(vo, k, vo.qty(k)):
                    if not close(vn.margin(k), S.target(vo, k)) or not close(vn.last(k), S.liq(vo, k, vo.qty(k))):
                        mon.flag("Broker.marking_to_market::margin_at_target", {"contract": str(k), "margin": vn.margin(k), "target": S.target(vo, k),
                                                                                 "last": vn.last(k), "liq": S.liq(vo, k, vo.qty(k))})

        def net_liquidation_value(b, raise_if_broke=True):
            mon.calls["net_liquidation_value"] += 1
            vo = S.ConcreteBrokerView(b, S.ConcreteBrokerView.snap(b))
            missing = any(vo.qty(k) != 0 and (vo.bid_nan(k) if vo.qty(k) > 0 else vo.ask_nan(k)) for k in vo.keys())
            e0 = None if missing else equity(vo)
            try:
                res = o_nlv(b, raise_if_broke)
            except ValueError:
                if not missing:
                    mon.flag("Broker.net_liquidation_value::raises::ValueError::sound", {})
                raise
            except EndOfEpisodeError:
                if missing or not (raise_if_broke and e0 <= 1e-9 * 1):
                    mon.flag("Broker.net_liquidation_value::raises::EndOfEpisodeError::sound", {"equity": e0})
                raise
            if missing:
                mon.flag("Broker.net_liquidation_value::raises::ValueError::complete", {"returned": float(res)})
            elif not close(res, e0, e0):
                mon.flag("Broker.net_liquidation_value::equals_equity", {"reported": float(res), "equity": e0})
            vn = S.ConcreteBrokerView(b)
            cash = vn.qty(b.base_currency)
            tot = cash + sum(vn.margin(k) for k in vn.keys()) + sum(vn.qty(k) * S.liq(vn, k, vn.qty(k)) * k.multiplier for k in vn.keys()
                                                                      if k.cash_requirement == 1 and k != b.base_currency and vn.qty(k) != 0)
            if not missing and not close(tot, res, res):
                mon.flag("Broker.net_liquidation_value::decomposition", {"cash_plus_margins_plus_spot": tot, "reported": float(res)})
            return res

        def make_trades(rb, broker):
            mon.calls["make_trades"] += 1
            pre = S.ConcreteBrokerView(broker, S.ConcreteBrokerView.snap(broker))
            trades = o_mt(rb, broker)
            mon.check_trades(rb, broker, pre, trades)
            return trades

        Broker.transact, Broker.accrued_interest, Broker.marking_to_market = transact, accrued_interest, marking_to_market
        Broker.net_liquidation_value, Rebalancing.make_trades = net_liquidation_value, make_trades

    def uninstall(self):
        Broker.transact, Broker.accrued_interest, Broker.marking_to_market, Broker.net_liquidation_value, Rebalancing.make_trades = self._orig

    def check_trades(self, rb, broker, pre, trades):
        """C12/C03: the emitted trades against an independently written specification"""
        v = S.ConcreteBrokerView(broker)          # after the valuation inside make_trades (marks only)
        nlv = equity(v)
        alloc = dict(rb.allocation)
        weights_mode = type(rb.allocation).__name__ == "Weights"
        held = {k: v.qty(k) for k in v.keys() if not isinstance(k, Cash) and v.qty(k) != 0}
        got = {}
        for t in trades:
            if t.contract in got:
                self.flag("Rebalancing.make_trades::one_trade_per_contract", {"contract": str(t.contract)})
            got[t.contract] = t
            if isinstance(t.contract, Cash) or t.quantity == 0:
                self.flag("Rebalancing.make_trades::no_cash_no_zero", {"contract": str(t.contract), "quantity": t.quantity})
        for k in set(alloc) | set(held):
            w = alloc.get(k, 0.0)
            if weights_mode:
                tgt = w * nlv / S.acq(v, k, w) / k.multiplier if w != 0 else 0.0
            else:
                tgt = w
            imb = tgt - held.get(k, 0.0)
            if imb != imb:
                continue
            q = imb if rb.fractional else float(int(imb))
            wimb = k.multiplier * imb * S.acq(v, k, imb) / nlv
            near = abs(abs(wimb) - rb.margin) <= 1e-9 or (abs(imb) < 1e-9) or (not rb.fractional and abs(abs(imb) - round(abs(imb))) < 1e-9)
            want = imb != 0 and q != 0 and not (abs(wimb) < rb.margin and k in alloc)
            if near:
                continue          # on the boundary floating point decides; the kernel covers the boundary exactly
            if want != (k in got):
                self.flag("Rebalancing.make_trades::emit_iff", {"contract": str(k), "imbalance": imb, "imbalance_weight": wimb, "threshold": rb.margin,
                                                                "in_target": k in alloc, "fractional": rb.fractional, "emitted": k in got})
            elif want:
                t = got[k]
                if not close(t.quantity, q, q):
                    self.flag("Rebalancing.make_trades::imbalance", {"contract": str(k), "traded": t.quantity, "expected": q})
                if not rb.fractional and t.quantity != int(t.quantity):
                    self.flag("Rebalancing.make_trades::whole_lots", {"contract": str(k), "traded": t.quantity})
                if (t.bid_price, t.ask_price) != (v.bid(k), v.ask(k)):
                    self.flag("Rebalancing.make_trades::trade_fields", {"contract": str(k)})


def quotes(ex, tt, spread, r, px, skip=()):
    for c in CS:
        if c in skip:
            continue
        px[c] = px.get(c, float(r.uniform(5, 500))) * float(np.exp(r.normal(0, 0.02)))
        p = px[c]
        h = p * spread / 2 * float(r.uniform(0, 1))
        ex.process_EventNBBO(EventNBBO(tt, c, p - h, p + h))


def history(seed, trial):
    """one seeded history; returns (violations, info)"""
    r = np.random.default_rng([seed, trial])
    spread = [0, 0.01, 0.05][trial % 3]
    fees = BrokerFees(proportional=[0, 0.002][trial % 2], fixed=[0, 0.5][(trial // 2) % 2], markup=[0.0, 0.003][(trial // 3) % 2])
    rate = [0.0, 0.03, 0.004][(trial // 2) % 3]
    whole = trial % 5 >= 3
    measure = "nr-contracts" if trial % 7 == 6 else "weight"
    margin = [0.0, 0.0, 0.03][trial % 3]
    if whole and trial % 2 == 0:
        margin = float(r.choice([0.05, 0.1, 0.2]))          # whole lots with a threshold of the order of one lot's weight
    px = {}
    ex = Exchange()
    ex.process_EventNBBO(EventNBBO(T0_, Cash(), 1, 1))
    ex.process_EventNBBO(EventNBBO(T0_, RATE, rate, rate))
    quotes(ex, T0_, spread, r, px)
    b = Broker(ex, deposit=1e5, fees=fees)
    mon = Monitor()
    mon.install()
    tt = T0_
    viol = []
    n_reb = 0
    try:
        for k in range(5):
            tt += timedelta(days=int(r.integers(1, 40)))
            quotes(ex, tt, spread, r, px)
            if k == 2 and trial % 4 == 0:
                b.accrued_interest(tt, accrue=False)        # a query between rebalances
            sel = [i for i in range(len(CS)) if r.random() < 0.7]
            if measure == "weight":
                w = r.uniform(-0.6, 0.6, len(CS))
                if trial % 6 == 5 and k >= 2 and sel:
                    prev_w = b.holdings_weights()
                    w = np.array([prev_w.get(c, 0.0) + r.uniform(-0.04, 0.04) for c in CS])      # small changes around the threshold
            else:
                w = np.round(r.uniform(-30, 30, len(CS)), 1)
            if sel:
                w[sel[int(r.integers(len(sel)))]] = 0.0
            held0 = {c: q for c, q in b.holdings_quantity.items() if not isinstance(c, Cash)}
            nrec0 = len(b.track_record)
            rb = Rebalancing([CS[i] for i in sel], [float(w[i]) for i in sel], measure=measure, fractional=not whole, margin=margin, time=tt)
            b.rebalance(rb)
            n_reb += 1
            q = b.holdings_quantity
            nlv_pre = rb.context_pre.nlv
            if margin == 0 and not whole:
                for i in sel:
                    c = CS[i]
                    if measure == "weight":
                        pxe = ex[c].ask_price if w[i] > 0 else ex[c].bid_price
                        if abs(w[i] * nlv_pre / pxe / c.multiplier) >= 1e-6 and not close(q.get(c, 0) * c.multiplier * pxe, w[i] * nlv_pre, nlv_pre):
                            viol.append(("Broker.rebalance::target_reached", {"contract": str(c), "w": float(w[i]), "value": q.get(c, 0) * c.multiplier * pxe,
                                                                             "w_x_nlv": float(w[i] * nlv_pre)}))
                    elif abs(w[i]) >= 1e-6 and not close(q.get(c, 0), w[i]):
                        viol.append(("Broker.rebalance::nr_contracts_exact", {"contract": str(c), "target": float(w[i]), "position": q.get(c, 0)}))
                for c in CS:
                    if c not in [CS[i] for i in sel] and q.get(c, 0) != 0:
                        viol.append(("Broker.rebalance::absent_closed", {"contract": str(c), "position": q[c]}))
            if len(b.track_record) != nrec0 + 1:
                viol.append(("Broker.rebalance::one_checkpoint", {"records": len(b.track_record), "before": nrec0}))
            if not close(rb.context_post.nlv - rb.context_pre.nlv,
                         sum(-t.cost_of_commissions + t.contract.multiplier * (
                             (held0.get(t.contract, 0) + t.quantity) * (t.bid_price if held0.get(t.contract, 0) + t.quantity > 0 else t.ask_price if held0.get(t.contract, 0) + t.quantity < 0 else (t.bid_price + t.ask_price) / 2)
                             - held0.get(t.contract, 0) * (t.bid_price if held0.get(t.contract, 0) > 0 else t.ask_price if held0.get(t.contract, 0) < 0 else (t.bid_price + t.ask_price) / 2)
                             - t.quantity * t.acq_price) for t in rb.trades), nlv_pre):
                if not any(0 < abs(held0.get(t.contract, 0) + t.quantity) < b._epsilon for t in rb.trades):
                    viol.append(("Broker.rebalance::ledger", {"post_minus_pre": rb.context_post.nlv - rb.context_pre.nlv}))
            wts = b.holdings_weights()
            nlv = b.net_liquidation_value()
            for c in CS:
                qq = q.get(c, 0)
                if qq != 0:
                    lq = ex[c].bid_price if qq > 0 else ex[c].ask_price
                    if not close(wts.get(c, 0), qq * lq * c.multiplier / nlv):
                        viol.append(("Broker.holdings_weights::ratio", {"contract": str(c), "reported": wts.get(c, 0), "expected": qq * lq * c.multiplier / nlv}))
        # C13: a held contract loses its quote: valuation and rebalancing must fail loudly and leave positions and records alone
        heldk = [c for c, qv in b.holdings_quantity.items() if qv != 0 and not isinstance(c, Cash)]
        if heldk and trial % 2 == 0:
            victim = heldk[int(r.integers(len(heldk)))]
            tt += timedelta(days=1)
            if trial % 4 == 0:
                ex.process_EventContractDiscontinued(EventContractDiscontinued(tt, victim))
            else:
                qv = b.holdings_quantity[victim]
                bk = ex[victim]
                ex.process_EventNBBO(EventNBBO(tt, victim, np.nan if qv > 0 else bk.bid_price, bk.ask_price if qv > 0 else np.nan))
            before = ({c: qv for c, qv in b.holdings_quantity.items() if not isinstance(c, Cash)}, len(b.track_record))
            for what, fn in (("net_liquidation_value", lambda: b.net_liquidation_value()), ("holdings_values(liquidation)", lambda: b.holdings_values("liquidation")),
                             ("rebalance", lambda: b.rebalance(Rebalancing([CS[0]], [0.1], time=tt)))):
                try:
                    fn()
                    viol.append(("C13::missing_quote_fails_loudly", {"call": what, "victim": str(victim)}))
                except ValueError:
                    pass
                after = ({c: qv for c, qv in b.holdings_quantity.items() if not isinstance(c, Cash)}, len(b.track_record))
                if after != before:
                    viol.append(("C13::rejected_rebalance_changes_nothing", {"call": what}))
        # C13: a rebalance that targets a flat contract which has no quote (never quoted) needs a missing quote: it must be rejected
        # before any trade, whatever the unit, the threshold and the lot mode
        if trial % 2 == 1 or not heldk:
            ghost = ETF("NEVERQUOTED")
            tt += timedelta(days=1)
            quotes(ex, tt, spread, r, px)
            before = ({c: qv for c, qv in b.holdings_quantity.items() if not isinstance(c, Cash)}, len(b.track_record))
            for meas, tgt in (("weight", [0.2, 0.1]), ("nr-contracts", [3.0, 2.0])):
                for mg in (0.0, 0.05, margin):
                    try:
                        b.rebalance(Rebalancing([CS[0], ghost], tgt, measure=meas, fractional=not whole, margin=mg, time=tt))
                        viol.append(("C13::missing_quote_fails_loudly", {"call": "rebalance targeting a never-quoted flat contract", "measure": meas, "threshold": mg}))
                    except ValueError:
                        pass
                    after = ({c: qv for c, qv in b.holdings_quantity.items() if not isinstance(c, Cash)}, len(b.track_record))
                    if after != before:
                        viol.append(("C13::rejected_rebalance_changes_nothing", {"call": "rebalance targeting a never-quoted flat contract", "measure": meas, "threshold": mg}))
                        before = after
    except EndOfEpisodeError:
        pass          # the account went insolvent: the history ends here (C09)
    except Exception as ex_:
        import traceback
        viol.append(("history_runs", {"error": "%s: %s" % (type(ex_).__name__, str(ex_)[:200]), "where": traceback.format_exc().splitlines()[-3:]}))
    finally:
        mon.uninstall()
    viol += mon.viol
    return viol, {"rebalances": n_reb, "calls": mon.calls, "spread": spread, "whole_lots": whole, "measure": measure, "threshold": margin}


def contracts_at_run_time(tier, seed):
    acc = Acc("seeded histories of 5 rebalances over 5 contracts (2 ETFs, ES, ZN, a fully-paid contract with multiplier 7): spreads "
              "{0,1%,5%}, fees, markup, interest rates, thresholds, whole lots, weight and contract-number targets, small changes around "
              "the threshold, query-only interest calls, then a missing/discontinued quote on a held contract; the contracts' clauses are "
              "evaluated concretely at every call of transact / accrued_interest / marking_to_market / net_liquidation_value / make_trades; "
              "non-trivial = history with at least one trade", "5 rebalances per history")
    n = 40 if tier == "quick" else 600
    for trial in range(n):
        viol, info = history(seed, trial)
        acc.case((seed, trial), nontrivial=info["calls"]["transact"] > 0, sample={"trial": trial, "info": info} if trial == 2 else None)
        acc.validated += sum(info["calls"].values())
        seen = set()
        for nm, d in viol:
            if nm in seen:
                continue
            seen.add(nm)
            acc.fail("runtime::" + nm, "runtime_contract", {"seed": seed, "trial": trial}, d)
    return acc.out()


def rerun(inp):
    viol, info = history(inp["seed"], inp["trial"])
    return {"reproduced": bool(viol), "failing": viol[:3]}


def aware_intervals(tier, seed):
    """C06: interest is pro-rated by ELAPSED seconds. With timezone-aware decision times whose UTC offsets differ (a daylight-saving
    switch, or times stamped in two zones) the elapsed time is not the difference of the wall clocks. Rebalances that trade nothing."""
    from datetime import timezone
    acc = Acc("no-trade rebalances at timezone-aware instants with differing UTC offsets (EST->EDT weekend, UTC vs UTC+9, three cuts of a "
              "year) x cash sign x rate; the balance after each interval against (1 + rate -/+ markup) ** (elapsed seconds / 365 days); a time "
              "earlier (in absolute time) than the last accrual must be refused; non-trivial = distinct case", "<= 4 accruals per case")
    est, edt, jst, utc = timezone(timedelta(hours=-5)), timezone(timedelta(hours=-4)), timezone(timedelta(hours=9)), timezone.utc
    seqs = {
        "dst_weekend": [datetime(2021, 3, 12, 16, tzinfo=est), datetime(2021, 3, 15, 16, tzinfo=edt), datetime(2021, 3, 16, 16, tzinfo=edt)],
        "two_zones": [datetime(2021, 1, 1, 0, tzinfo=utc), datetime(2021, 7, 1, 9, tzinfo=jst), datetime(2022, 1, 1, 0, tzinfo=utc)],
        "same_zone": [datetime(2021, 1, 1, 0, tzinfo=jst), datetime(2021, 1, 2, 0, tzinfo=jst), datetime(2021, 2, 1, 0, tzinfo=jst)],
    }
    for name, times in seqs.items():
        for cash0 in (1e5, -2e4):
            for rate, markup in ((0.03, 0.005), (0.0, 0.01)):
                ex = Exchange()
                ex.process_EventNBBO(EventNBBO(times[0], Cash(), 1, 1))
                ex.process_EventNBBO(EventNBBO(times[0], RATE, rate, rate))
                b = Broker(ex, deposit=cash0, fees=BrokerFees(markup=markup))
                acc.case((name, cash0, rate))
                bad = None
                try:
                    # a solvent account accrues through no-trade rebalances; a borrowed balance (insolvent on its own: it could not
                    # rebalance) through direct accruals
                    tick = (lambda t: b.rebalance(Rebalancing(time=t))) if cash0 > 0 else (lambda t: b.accrued_interest(t, accrue=True))
                    tick(times[0])
                    want = cash0
                    for t0, t1 in zip(times, times[1:]):
                        tick(t1)
                        years = (t1 - t0).total_seconds() / SECONDS_IN_YEAR
                        cagr = (rate - markup) if want > 0 else (rate + markup)
                        grow = want * ((1 + cagr) ** years - 1)
                        if want > 0 and grow < 0:
                            grow = 0.0
                        want += grow
                        got = b.holdings_quantity[Cash()]
                        acc.validated += 1
                        if abs(got - want) > 1e-9 * max(1.0, abs(want)):
                            bad = {"sequence": name, "interval": [str(t0), str(t1)], "elapsed_hours": (t1 - t0).total_seconds() / 3600,
                                   "balance": got, "expected": want}
                            break
                    if bad is None:
                        # one hour of wall clock later, but five hours EARLIER in absolute time
                        back = (times[-1] - timedelta(hours=5)).astimezone(timezone(timedelta(hours=-6))) if times[-1].utcoffset() == timedelta(0) else None
                        if back is not None:
                            try:
                                tick(back)
                                bad = {"sequence": name, "problem": "an instant earlier than the last accrual was accepted", "time": str(back)}
                            except ValueError:
                                pass
                except Exception as ex_:
                    bad = {"sequence": name, "error": "%s: %s" % (type(ex_).__name__, str(ex_)[:160])}
                if bad:
                    acc.fail("runtime::C06::prorated_by_elapsed_seconds", "runtime_contract", {"aware": name, "cash": cash0, "rate": rate, "markup": markup}, bad)
    return acc.out()
