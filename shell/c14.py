"""C14 bounded shell: random interleavings of quotes, discontinuations, queries and moves of the process-wide clock (forwards and
backwards across roll dates) over assets, futures, futures chains and string keys, against an independent reference order book
keyed by the contract a key denotes at that moment."""
from .common import *
import math
from tradingenv import contracts as C
from tradingenv.contracts import ETF, ES, FutureChain
from tradingenv.exchange import Exchange
from tradingenv.events import EventContractDiscontinued


def denotes(key, now):
    """the book a key addresses, resolved independently of the library: a chain denotes the earliest contract whose last trading date
    is strictly later than `now`; anything else denotes itself (contracts compare by class and symbol)"""
    if isinstance(key, FutureChain):
        live = [c for c in key.contracts if c.last_trading_date > now]
        return live[key._month].symbol                # the chain's month offset: the k-th contract behind the front one
    if isinstance(key, str):
        return key                                   # a string key addresses the book of the contract carrying that symbol
    return key.symbol


def run(seed, n_ops):
    r = random.Random(seed)
    chain = FutureChain(ES, "2019-03", "2019-12")
    chain2 = FutureChain(ES, "2019-03", "2019-12")            # a second instance of the same chain: must address the same books
    chain_next = FutureChain(ES, "2019-03", "2020-03", month=1)  # the contract behind the front one
    keys = [ETF("SPY"), ETF("IEF"), chain, chain2, chain_next] + list(chain.contracts)
    queries = keys + ["SPY", chain.contracts[1].symbol, "never-quoted"]
    ltds = [c.last_trading_date for c in chain.contracts]
    clocks = [datetime(2019, 1, 15)] + [l + timedelta(seconds=s) for l in ltds[:-1] for s in (-1, 0, 1)] + [ltds[-1] - timedelta(days=3)]
    ex = Exchange()
    ref = {}                     # denoted contract -> dict(bid, ask, alive, hist)
    saved = C.AbstractContract.now
    t = datetime(2019, 1, 1)
    try:
        now = clocks[0]
        C.AbstractContract.now = now
        for i in range(n_ops):
            op = r.random()
            t += timedelta(seconds=1)
            if op < 0.15:
                now = r.choice(clocks)           # the clock may also go back (a new episode, another environment in the same process)
                C.AbstractContract.now = now
                continue
            key = r.choice(keys)
            d = denotes(key, now)
            book = ref.setdefault(d, {"bid": math.nan, "ask": math.nan, "alive": True, "hist": []})
            if op < 0.6:
                bid = round(r.uniform(50, 150), 2)
                ask = bid + r.choice([0, 0.25, 1.0])
                ex.process_EventNBBO(EventNBBO(t, key, bid, ask))
                if book["alive"]:
                    book["bid"], book["ask"] = bid, ask
                    book["hist"].append((bid, ask))
            elif op < 0.68:
                ex.process_EventContractDiscontinued(EventContractDiscontinued(t, key))
                book["bid"], book["ask"], book["alive"] = math.nan, math.nan, False
            # query through every key that denotes some book right now
            for k in queries:
                dk = denotes(k, now)
                want = ref.get(dk, {"bid": math.nan, "ask": math.nan, "alive": True, "hist": []})
                got = ex[k]
                same = lambda a, b: (math.isnan(a) and math.isnan(b)) or a == b
                ok = same(got.bid_price, want["bid"]) and same(got.ask_price, want["ask"]) and bool(got.is_alive) == want["alive"] \
                    and list(zip(got.history["bid_price"], got.history["ask_price"])) == want["hist"]
                if ok and not math.isnan(want["bid"]):
                    ok = got.acq_price(+1) == want["ask"] and got.acq_price(-1) == want["bid"] and got.liq_price(+1) == want["bid"] \
                        and got.liq_price(-1) == want["ask"] and got.acq_price(0) == (want["bid"] + want["ask"]) / 2
                if not ok:
                    return {"op": i, "clock": str(now), "key": str(k), "denotes": dk, "reported": [got.bid_price, got.ask_price, bool(got.is_alive), len(got.history["bid_price"])],
                            "expected": [want["bid"], want["ask"], want["alive"], len(want["hist"])]}, i
        return None, n_ops
    finally:
        C.AbstractContract.now = saved


def order_book(tier, seed):
    acc = Acc("random interleavings of {quote, discontinuation, clock move (forwards / backwards across every roll instant -1s/0/+1s), query} "
              "over 2 ETFs, two instances of an ES chain, a chain with month offset 1, and the 4 contracts; after every operation every key (and three string keys) is queried and "
              "compared (bid, ask, alive, history, execution prices) with a reference book keyed by the contract the key denotes at that "
              "clock; non-trivial = distinct seed", "120 operations per sequence")
    for k in range(12 if tier == "quick" else 80):
        try:
            bad, n = run(1000 * seed + k, 120)
        except Exception as ex:
            bad, n = {"error": "%s: %s" % (type(ex).__name__, str(ex)[:200])}, 0
        acc.case(("seq", k), sample={"seed": 1000 * seed + k, "operations": n} if k == 0 else None)
        acc.validated += n
        if bad:
            acc.fail("C14::shell::key_addresses_the_book_of_what_it_denotes", "c14_books", {"seed": 1000 * seed + k, "n_ops": 120}, bad)
    return acc.out()


def rerun(inp):
    bad, _ = run(inp["seed"], inp["n_ops"])
    return {"reproduced": bool(bad), "failing": bad}
