"""C04 bounded shell: recording observer over enumerated grids / event placements / latencies / folds / warm-up / markov."""
from .common import *
from tradingenv.env import TradingEnv
from tradingenv.transmitter import Transmitter
from tradingenv.contracts import ETF
from tradingenv.spaces import BoxPortfolio

SPY = ETF("SPY")


def configs(tier, seed):
    lat = [0, 30]
    gaps = [6, 24] if tier == "quick" else [1, 6, 24, 72]
    warm = [None, 13] if tier == "quick" else [None, 5, 13, 50]
    folds = [None, (2, 4)] if tier == "quick" else [None, (2, 4), (0, 3), (1, 5), (3, 3)]
    shuffles = [seed] if tier == "quick" else [seed, seed + 1, seed + 2]
    for latency, gaph, markov, w, fold, sh in itertools.product(lat, gaps, [False, True], warm, folds, shuffles):
        if markov and w:
            continue
        yield {"latency": latency, "gap_hours": gaph, "markov": markov, "warmup_hours": w, "fold": fold, "shuffle": sh, "n_grid": 6,
               "ticks": True}
    # an earlier episode with an explicit length (a sampled sub-window), abandoned, before the two recorded full episodes
    for latency, markov, fold in itertools.product([0, 30], [False, True], [None, (1, 5)] if tier == "quick" else [None, (1, 5), (0, 3)]):
        yield {"latency": latency, "gap_hours": 24, "markov": markov, "warmup_hours": None, "fold": fold, "shuffle": seed, "n_grid": 6,
               "ticks": True, "length_first": 3}
    # bar-shaped data: exactly one quote per timestep and nothing else (each step's only event is the first of its day)
    for gaph, fold in itertools.product([24, 48] if tier == "quick" else [12, 24, 48, 168], [None, (1, 4)]):
        yield {"latency": 0, "gap_hours": gaph, "markov": False, "warmup_hours": None, "fold": fold, "shuffle": seed, "n_grid": 6,
               "ticks": False}


class InheritingRecorder(Recorder):
    """defines no callback of its own"""


def run_config(cfg):
    """returns (checks, info): checks = list of (name, ok, detail)"""
    latency, gaph, markov, w, fold = cfg["latency"], cfg["gap_hours"], cfg["markov"], cfg["warmup_hours"], cfg["fold"]
    warm = timedelta(hours=w) if w else None
    grid = [D0 + timedelta(hours=gaph * i) for i in range(cfg["n_grid"])]
    folds = None if fold is None else {"f": [grid[fold[0]], grid[fold[1]]]}
    tr = Transmitter(list(reversed(grid)) + [grid[2]], folds, markov, warm)        # unsorted input with a duplicate
    evs, uid = [], 0
    offs = [-3600, -1, 0, 1, latency, latency + 1, 3600] if latency else [-3600, -1, 0, 1, 3600]
    for g in grid:
        evs.append(EventNBBO(g, SPY, 100, 100))
        for o in (offs if cfg.get("ticks", True) else []):
            evs.append(Tick(g + timedelta(seconds=o), uid))
            uid += 1
    if cfg.get("ticks", True):
        evs.append(Tick(grid[-1] + timedelta(hours=100), uid)); uid += 1      # after the end of the grid
        evs.append(Tick(grid[0] - timedelta(hours=100), uid)); uid += 1       # long before the grid
    r = np.random.default_rng(cfg["shuffle"])
    r.shuffle(evs)
    tr.add_events(evs)
    rec = Recorder()
    heir = InheritingRecorder()          # subscribes through callbacks it inherits: must receive exactly what its parent class receives
    env = TradingEnv(action_space=BoxPortfolio([SPY]), state=[rec, heir], transmitter=tr, latency=latency)
    rec.env = env
    ticks = {e.uid: e.time for e in evs if isinstance(e, Tick)}
    order_in = {e.uid: i for i, e in enumerate(evs) if isinstance(e, Tick)}
    checks = []
    if cfg.get("length_first"):
        np.random.seed(cfg["shuffle"])
        env.reset(fold="f" if fold else "training-set", episode_length=cfg["length_first"])
        env.step(np.array([0.1]))
    lo, hi = (grid[fold[0]], grid[fold[1]]) if fold else (grid[0], grid[-1])
    for ep in range(2):
        rec.log = []
        heir.log = []
        env.reset(fold="f" if fold else "training-set")
        steps = [t if isinstance(t, datetime) else t.to_pydatetime() if hasattr(t, "to_pydatetime") else t for t in env._transmitter._steps]
        first, last = steps[0], steps[-1]
        # every grid point carries a quote here, so a plain reset must plan exactly the grid points of the fold, whatever came before
        checks.append(("episode_visits_every_timestep_of_the_fold", steps == [g for g in grid if lo <= g <= hi],
                       {"episode": ep, "planned": [str(x) for x in steps], "fold": [str(lo), str(hi)]}))
        # a fold of a single timestep is exhausted by reset itself (the stream runs out while the next batch is fetched): the episode
        # is then already over and C09 says every step is refused; so the loop starts from the environment's own flag
        done = bool(env._done)
        while not done:
            _, _, done, _ = env.step(np.array([0.3]))
        log = list(rec.log)
        checks.append(("observer_with_inherited_callbacks_receives_the_same_events", [(l[0], l[1], l[2]) for l in heir.log] == [(l[0], l[1], l[2]) for l in log],
                       {"episode": ep, "parent": len(log), "heir": len(heir.log)}))
        times = [l[1] for l in log]
        tag = "ep%d" % ep
        bad = [(i, str(a), str(b)) for i, (a, b) in enumerate(zip(times, times[1:])) if a > b]
        checks.append(("order", not bad, {"episode": ep, "first_inversion": bad[:1], "kinds": [log[bad[0][0]][0], log[bad[0][0] + 1][0]] if bad else None}))
        got = [l[2] for l in log if l[0] == "Tick"]
        checks.append(("exactly_once", len(got) == len(set(got)), {"episode": ep, "duplicates": sorted(set(x for x in got if got.count(x) > 1))[:5]}))

        def slot(t):
            c = [g for g in grid if g >= t]
            return c[0] if c else None
        exp, exp_known = set(), set()
        for u, t in ticks.items():
            s = slot(t)
            if s is None or s > last:
                continue
            if s >= first:
                exp.add(u)
                if markov and t < grid[0]:
                    exp_known.add(u)            # D13: dropped by _create_partitions although its slot is the first timestep
            else:
                if markov:
                    continue
                if warm is not None and s < first - warm:
                    continue
                exp.add(u)
        missing, extra = exp - set(got), set(got) - exp
        checks.append(("completeness", not (missing - exp_known) and not extra,
                       {"episode": ep, "missing": sorted(missing - exp_known)[:5], "extra": sorted(extra)[:5]}))
        if missing & exp_known:
            checks.append(("KNOWN:D13", False, {"episode": ep, "missing": sorted(missing & exp_known)[:5]}))
        # on time: segment i of the log (before Reset / between Step markers) lands on steps[i]
        seg, seg_of = 0, {}
        n_at_marker = {}
        for kind, t, u, n, now in log:
            if kind == "Tick":
                seg_of[u] = (seg, n)
            if kind in ("Reset", "Step"):
                n_at_marker[seg] = n
                seg += 1
        late = []
        for u, (sg, n) in seg_of.items():
            s = slot(ticks[u])
            want = 0 if s <= first else steps.index(s) if s in steps else None
            if want is None or want != sg:
                late.append((u, sg, want))
        checks.append(("on_time", not late, {"episode": ep, "wrong_step": late[:5]}))
        # latency rule: within a step, applied before the execution iff stamped within `latency` seconds after the previous timestep
        wrong = []
        for u, (sg, n) in seg_of.items():
            if sg == 0:
                continue
            before = n == n_at_marker.get(sg - 1)
            want_before = (ticks[u] - steps[sg - 1]).total_seconds() <= latency
            if before != want_before:
                wrong.append((u, str(ticks[u]), before, want_before))
        checks.append(("latent_iff", not wrong, {"episode": ep, "wrong_side": wrong[:5]}))
        # ties keep insertion order (sorted is stable)
        tie_bad = []
        tk = [(l[1], l[2]) for l in log if l[0] == "Tick"]
        for (t1, u1), (t2, u2) in zip(tk, tk[1:]):
            if t1 == t2 and order_in[u1] > order_in[u2]:
                tie_bad.append((u1, u2))
        checks.append(("ties_in_insertion_order", not tie_bad, {"episode": ep, "pairs": tie_bad[:5]}))
        # environment notifications are stamped with the time of the latest market event processed
        last_mkt, stamp_bad = None, []
        for kind, t, u, n, now in log:
            if kind in ("Tick", "NBBO", "Discontinued"):
                last_mkt = t
            elif kind in ("Reset", "Step", "Done") and last_mkt is not None and t != last_mkt:
                stamp_bad.append((kind, str(t), str(last_mkt)))
        checks.append(("env_events_stamped_with_latest_event", not stamp_bad, {"episode": ep, "first": stamp_bad[:2]}))
    return checks, {"grid": [str(g) for g in grid[:3]] + ["..."], "n_events": len(evs)}


def delivery(tier, seed):
    acc = Acc("enumerated: latency x grid gap x markov x warm-up x fold x shuffle seed; per timestep ticks at {-1h,-1s,0,+1s,latency,latency+1s,+1h}, "
              "one tick after the grid and one long before; unsorted grid input with a duplicate; two consecutive episodes; "
              "non-trivial = distinct configuration", "6 grid points, <= 44 events, 2 episodes per configuration")
    for cfg in configs(tier, seed):
        try:
            checks, info = run_config(cfg)
        except Exception as ex:
            checks, info = [("episode_runs", False, {"error": "%s: %s" % (type(ex).__name__, str(ex)[:200])})], {}
        acc.case(tuple(sorted((k, str(v)) for k, v in cfg.items())), sample={"config": cfg, "info": info})
        acc.validated += 2
        for name, ok, detail in checks:
            if ok:
                continue
            if name.startswith("KNOWN:"):
                acc.known_fail(name.split(":")[1], "markov_reset drops events stamped before the first grid point: %r" % (detail,))
            else:
                acc.fail("C04::shell::" + name, "c04_delivery", {"config": cfg, "check": name}, detail)
    return acc.out(exhaustive=False)


def rerun(inp):
    checks, info = run_config(inp["config"])
    bad = [(n, d) for n, ok, d in checks if not ok and n == inp["check"]]
    return {"reproduced": bool(bad), "failing": bad[:2]}
