"""C15 bounded shell: fold windows, consecutive event-bearing timesteps, walk-forward arithmetic."""
from .common import *
import pandas as pd
from tradingenv.transmitter import Transmitter
from tradingenv.contracts import ETF


def fold_case(n, fold, with_gaps, length, reps, seed, off_grid=False):
    a = ETF("AAA")
    grid = [D0 + timedelta(days=i) for i in range(n)]
    # off_grid: the fold's bounds fall between grid points (e.g. midnight bounds on an intraday grid): same timesteps inside
    fb = [grid[fold[0]] - timedelta(hours=7), grid[fold[1]] + timedelta(hours=7)] if off_grid else [grid[fold[0]], grid[fold[1]]]
    tr = Transmitter(list(grid), {"f": fb, "g": [grid[0], grid[-1]]})
    bearing = [g for i, g in enumerate(grid) if not (with_gaps and i % 3 == 1)]
    for g in bearing:
        tr.add_events([EventNBBO(g, a, 10, 10)])
    tr._create_partitions()
    lo, hi = grid[fold[0]], grid[fold[1]]
    in_fold = [g for g in bearing if lo <= g <= hi]
    np.random.seed(seed)
    starts = set()
    for _ in range(reps):
        try:
            tr._reset("f", length)
        except ValueError:
            if length is not None and len(in_fold) >= length:
                return {"problem": "fitting episode refused", "in_fold": len(in_fold), "length": length}
            return None
        steps = [pd.Timestamp(s).to_pydatetime() for s in tr._steps]
        if any(not (lo <= s <= hi) for s in steps):
            return {"problem": "step outside fold", "steps": [str(s) for s in steps[:3]]}
        if length is None:
            if steps != in_fold:
                return {"problem": "not the fold's event-bearing timesteps", "got": len(steps), "want": len(in_fold)}
        else:
            if len(steps) != length:
                return {"problem": "wrong length", "got": len(steps), "want": length}
            i0 = in_fold.index(steps[0]) if steps[0] in in_fold else -1
            if i0 < 0 or steps != in_fold[i0:i0 + length]:
                return {"problem": "not consecutive"}
            starts.add(steps[0])
        if length is not None and len(in_fold) < length:
            return {"problem": "non-fitting episode accepted", "in_fold": len(in_fold), "length": length}
    if length is not None and reps >= 200:
        want = len(in_fold) - length + 1
        if len(starts) != want:
            return {"problem": "start coverage", "seen": len(starts), "fitting": want}
    return None


def sequence_case(n, with_gaps, markov, order, seed):
    """several episodes on ONE transmitter (each run to its end through _next), over different folds and with / without an episode
    length: what an episode visits must not depend on the episodes before it"""
    a = ETF("AAA")
    grid = [D0 + timedelta(days=i) for i in range(n)]
    folds = {"late": [grid[n // 2], grid[-1]], "early": [grid[0], grid[n // 2 - 1]], "mid": [grid[2], grid[n - 3]], "all": [grid[0], grid[-1]]}
    tr = Transmitter(list(grid), folds, markov)
    bearing = [g for i, g in enumerate(grid) if not (with_gaps and i % 3 == 1)]
    for g in bearing:
        tr.add_events([EventNBBO(g, a, 10, 10)])
    np.random.seed(seed)
    for k, (fold, length) in enumerate(order):
        lo, hi = folds[fold]
        in_fold = [g for g in bearing if lo <= g <= hi]
        try:
            tr._reset(fold, length)
        except ValueError:
            if length is not None and len(in_fold) >= length:
                return {"problem": "fitting episode refused", "episode": k, "fold": fold, "length": length}
            continue
        steps = [pd.Timestamp(x).to_pydatetime() for x in tr._steps]
        if length is None:
            if steps != in_fold:
                return {"problem": "not the fold's event-bearing timesteps", "episode": k, "fold": fold, "got": [str(x.date()) for x in steps],
                        "want": [str(x.date()) for x in in_fold]}
        else:
            i0 = in_fold.index(steps[0]) if steps and steps[0] in in_fold else -1
            if len(steps) != length or i0 < 0 or steps != in_fold[i0:i0 + length]:
                return {"problem": "not %d consecutive event-bearing timesteps of the fold" % length, "episode": k, "fold": fold,
                        "got": [str(x.date()) for x in steps]}
        visited = 0
        while True:
            try:
                tr._next()
            except StopIteration:
                break
            visited += 1
            if visited > n + 2:
                return {"problem": "episode does not end", "episode": k}
        if visited != len(steps):
            return {"problem": "visited %d timesteps, planned %d" % (visited, len(steps)), "episode": k, "fold": fold}
    return None


ORDERS = [
    [("late", None), ("early", None), ("all", None)],                 # a later fold first, then the history it replayed
    [("all", 3), ("all", None), ("mid", None)],                      # a sampled window, then plain resets
    [("mid", 4), ("mid", 4), ("mid", None), ("late", 2), ("late", None)],
    [("early", None), ("early", None), ("late", 3), ("early", None)],
]


def wf_case(n, train, test, sliding):
    tr = Transmitter([D0 + timedelta(days=i) for i in range(n)])
    f = tr.walk_forward(train, test, sliding)
    ts, te, vs, ve = [list(map(int, x)) for x in (f.train_start, f.train_end, f.test_start, f.test_end)]
    for i in range(len(vs)):
        if ve[i] - vs[i] + 1 != test:
            return {"problem": "test size", "fold": i}
        if vs[i] != te[i] + 1:
            return {"problem": "test not adjacent to its training window", "fold": i, "train_end": te[i], "test_start": vs[i]}
        if (te[i] - ts[i] + 1 != train) if sliding else (ts[i] != 0 or te[i] - ts[i] + 1 != train + i * test):
            return {"problem": "training window", "fold": i, "train": [ts[i], te[i]]}
        if i and not (ve[i - 1] < vs[i]):
            return {"problem": "test windows overlap or are unordered", "fold": i}
        if ve[i] >= n:
            return {"problem": "index beyond the grid", "fold": i}
    return None


def folds(tier, seed):
    acc = Acc("folds: grids of 10/14 points (with and without event-less timesteps), fold windows, episode lengths None/1..fold size+1, "
              "seeded resets (200 per case when coverage is checked); walk-forward: n in 10..40, train 1..10, test 1..6, sliding and "
              "expanding; sequences of 3-5 episodes on one transmitter over different folds / lengths, each run to its end; non-trivial = distinct case", "<= 40 timesteps")
    for n in (10, 14):
        for fold in ((2, 7), (0, n - 1), (3, 3)):
            for gaps in (False, True):
                size = fold[1] - fold[0] + 1
                # Transmitter._reset counts *states*: L states = L-1 decisions; the property's n >= 1 decisions is L >= 2
                for length in [None] + list(range(2, size + 2)):
                    reps = 200 if (length is not None and length <= size and (tier != "quick" or length in (2, 3, size))) else 3
                    p = fold_case(n, fold, gaps, length, reps, seed)
                    if not p and (length is None or length in (2, size, size + 1)):
                        p = fold_case(n, fold, gaps, length, min(reps, 30), seed, off_grid=True)
                        if p:
                            p["fold_bounds"] = "between grid points"
                    acc.case(("fold", n, fold, gaps, length), sample={"n": n, "fold": list(fold), "gaps": gaps, "length": length}
                             if (n, fold, gaps, length) == (10, (2, 7), True, 3) else None)
                    acc.validated += reps
                    if p:
                        acc.fail("C15::shell::episode_inside_fold", "c15_folds", {"case": "fold", "n": n, "fold": list(fold), "gaps": gaps,
                                                                                  "length": length, "reps": reps, "seed": seed}, p)
    for n in (10, 13):
        for gaps in (False, True):
            for markov in (False, True):
                for oi, order in enumerate(ORDERS):
                    for sd in ((seed,) if tier == "quick" else (seed, seed + 1, seed + 2)):
                        p = sequence_case(n, gaps, markov, order, sd)
                        acc.case(("sequence", n, gaps, markov, oi, sd), sample={"n": n, "gaps": gaps, "markov": markov, "episodes": order} if (n, gaps, markov, oi) == (10, True, False, 0) else None)
                        acc.validated += len(order)
                        if p:
                            acc.fail("C15::shell::episode_independent_of_earlier_episodes", "c15_folds",
                                     {"case": "sequence", "n": n, "gaps": gaps, "markov": markov, "order": oi, "seed": sd}, p)
    rng = range(10, 41, 6) if tier == "quick" else range(10, 41)
    for n in rng:
        for train in range(1, 11, (3 if tier == "quick" else 1)):
            for test in range(1, 7):
                if train + test > n:
                    continue
                for sliding in (True, False):
                    p = wf_case(n, train, test, sliding)
                    acc.case(("wf", n, train, test, sliding), sample={"n": n, "train": train, "test": test, "sliding": sliding}
                             if (n, train, test) == (16, 4, 2) else None)
                    if p:
                        acc.fail("C15::shell::walk_forward_windows", "c15_folds", {"case": "wf", "n": n, "train": train, "test": test, "sliding": sliding}, p)
    return acc.out()


def rerun(inp):
    if inp["case"] == "sequence":
        p = sequence_case(inp["n"], inp["gaps"], inp["markov"], ORDERS[inp["order"]], inp["seed"])
        return {"reproduced": bool(p), "failing": p}
    if inp["case"] == "fold":
        p = fold_case(inp["n"], tuple(inp["fold"]), inp["gaps"], inp["length"], inp["reps"], inp["seed"]) or \
            fold_case(inp["n"], tuple(inp["fold"]), inp["gaps"], inp["length"], min(inp["reps"], 30), inp["seed"], off_grid=True)
    else:
        p = wf_case(inp["n"], inp["train"], inp["test"], inp["sliding"])
    return {"reproduced": bool(p), "failing": p}
