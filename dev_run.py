import sys, time
sys.path.insert(0, '/verif')
from contracts import load_all
from pyvc.contract import verify, verify_body
reg = load_all()
names = sys.argv[1:] or [k for k in reg if not k.startswith('loop:') and not k.startswith('builtin:') and not k.startswith('method:') and not getattr(reg[k],'assumed',False)]
for n in names:
    t0 = time.time()
    res = (verify_body if n.startswith('body:') else verify)(getattr(reg[n],'concrete',reg[n]), reg)
    bad = [o for o in res.obls if o.verdict != 'unsat' and o.kind!='control']
    print(f"{n}: paths={res.paths} feasible={res.feasible_paths} outcomes={res.outcomes} obls={len(res.obls)} notok={len(bad)} {time.time()-t0:.1f}s inlined={sorted(res.inlined)}")
    seen=set()
    for o in bad:
        if (o.name,o.verdict) in seen: continue
        seen.add((o.name,o.verdict))
        print("   ", o.verdict, o.name, o.detail[:100], o.path, o.model if o.model else '')
